#!/bin/bash
# usage: dev/with_patch.sh <patch.diff> <command...>
# Runs <command> with VERIF_REPO pointing at a scratch worktree of /repo HEAD
# with the patch applied; removes the worktree afterwards.
set -u
patch="$(realpath "$1")"; shift
wt="$(mktemp -d /tmp/statham_mut_XXXXXX)"
rmdir "$wt"
git -C /repo worktree add -q --detach "$wt" HEAD || exit 9
cleanup() { git -C /repo worktree remove --force "$wt" 2>/dev/null; rm -rf "$wt"; git -C /repo worktree prune; }
trap cleanup EXIT
if ! git -C "$wt" apply "$patch"; then echo "PATCH-DOES-NOT-APPLY"; exit 8; fi
VERIF_REPO="$wt" VERIF_REPLAY_DIR="$wt/.replays" "$@"
rc=$?
echo "exit=$rc"
exit $rc
