#!/usr/bin/env python3
"""Regenerate the seeded-changes table of DESIGN.md (between the markers)
from seeded/*/meta.json."""
import json
import os
import re

HERE = os.path.dirname(os.path.dirname(os.path.abspath(__file__)))
rows = []
for name in sorted(os.listdir(os.path.join(HERE, "seeded")), key=lambda n: (n.split("-")[0], int(n.split("-m")[1]) if "-m" in n else 0)):
    path = os.path.join(HERE, "seeded", name, "meta.json")
    if not os.path.exists(path):
        continue
    meta = json.load(open(path))
    res = meta.get("quick_check_results", {})
    first = meta.get("first_confrontation")
    caught = "; ".join(
        f"**{c}**: {v['invariant']} [{v['failing_runs']}]" if v["exit"] == 1 else f"{c}: not at quick size"
        for c, v in res.items()
    ) or "not run yet"
    if first is not None:
        was = any(v["exit"] == 1 for v in first.values())
        caught += " *(first confrontation: %s)*" % ("caught" if was else "missed")
    rows.append(f"| {name} | {meta['mechanism'][:170]} | {meta['needs_to_manifest'][:150]} | {caught} |")
table = "\n".join(
    [
        "| id | mechanism (sub-agent's change) | needs | caught by (quick tier, seed 0): invariant [failing runs] |",
        "|---|---|---|---|",
    ]
    + rows
)
design = os.path.join(HERE, "DESIGN.md")
text = open(design).read()
begin, end = "<!-- seeded-table:begin -->", "<!-- seeded-table:end -->"
if begin in text:
    text = re.sub(re.escape(begin) + ".*?" + re.escape(end), begin + "\n" + table + "\n" + end, text, flags=re.S)
    open(design, "w").write(text)
print(len(rows), "rows")
