#!/bin/bash
# usage: dev/confirm_seed.sh <patch.diff> <demo.py> <PROP> [more props...]
# Confirms a seeded change: demo passes on clean tree, tests pass with the
# change, demo fails with the change; then runs our quick check(s) against it.
set -u
VERIF_HOME="$(cd "$(dirname "$(realpath "$0")")/.." && pwd)"
patch="$(realpath "$1")"; demo="$(realpath "$2")"; shift 2
wt="$(mktemp -d /tmp/statham_seed_XXXXXX)"; rmdir "$wt"
git -C /repo worktree add -q --detach "$wt" HEAD || exit 9
cleanup() { git -C /repo worktree remove --force "$wt" 2>/dev/null; rm -rf "$wt"; git -C /repo worktree prune; }
trap cleanup EXIT
cd "$wt"
PYTHONPATH="$wt" timeout 300 /venv/bin/python "$demo" >/dev/null 2>&1; echo "demo_clean_exit=$?"
if ! git -C "$wt" apply "$patch"; then echo "PATCH-DOES-NOT-APPLY"; exit 8; fi
PYTHONPATH="$wt" timeout 900 /venv/bin/python -m pytest -q -p no:cacheprovider --continue-on-collection-errors 2>&1 | tail -1 | sed 's/^/tests: /'
PYTHONPATH="$wt" timeout 300 /venv/bin/python "$demo" >/dev/null 2>&1; echo "demo_patched_exit=$?"
cd "$VERIF_HOME"
for prop in "$@"; do
  out="$(VERIF_REPO="$wt" VERIF_REPLAY_DIR="$wt/.replays" VERIF_NO_DET=1 timeout 1500 bin/check "$prop" ${TIER:-quick} 2>&1)"; rc=$?
  echo "check $prop ${TIER:-quick} exit=$rc :: $(echo "$out" | grep -E "^(violation|HARNESS|[A-Za-z]*Error)" | head -4 | cut -c1-400)"
done
