#!/bin/bash
VERIF_HOME="$(cd "$(dirname "$(realpath "$0")")/.." && pwd)"
# usage: dev/run_seeds.sh [seed dirs...]   (default: all under /verif/seeded)
# For every seeded change: confirm (tests pass, demo fails with / passes without)
# and run the quick check(s) listed in its meta.json "checks" (default: its own property).
cd "$VERIF_HOME"
dirs=("$@"); [ ${#dirs[@]} -eq 0 ] && dirs=(seeded/*/)
for d in "${dirs[@]}"; do
  d=${d%/}; name=$(basename $d)
  prop=${name%%-*}
  checks=$(python3 -c "import json,sys; m=json.load(open('$d/meta.json')); print(' '.join(m.get('checks',[m['property']])))" 2>/dev/null || echo $prop)
  echo "##### $name (checks: $checks)"
  dev/confirm_seed.sh $d/patch.diff $d/demo.py $checks 2>&1 | grep -E "^(demo_|tests:|check |PATCH)" | cut -c1-260
done
