"""Deterministic simulation machinery for statham-schema (see /verif/DESIGN.md)."""
