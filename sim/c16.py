"""C16 - format checking consults exactly the registered checker (engine H).

World: the real process-wide `format_checker`; model: a dict name -> predicate
descriptor (the two built-ins start as {"t": "builtin"}).

op = {"op": "make", "eid": k, "kind": "String"|"Element"|"Array"|"Prop"|"AnyOfNull", "name": fmt}
   | {"op": "register", "name": fmt, "pred": <descriptor>}
   | {"op": "validate", "eid": k, "value": json}
   | {"op": "builtin", "fmt": "uuid"|"date-time", "value": str, "class": tag}
"""
import copy
import warnings

from statham.schema.elements import AnyOf, Array, Element, Null, String
from statham.schema.property import Property
from statham.schema.validation.format import format_checker

from sim import gen
from sim.common import gen_perm, install_validator_order
from sim.world import attempt, norm

def _registry_attr():
    """Name of the attribute holding the name -> checker map (the anchored
    `_callable_register`; located by content if it was ever renamed)."""
    if isinstance(getattr(format_checker, "_callable_register", None), dict):
        return "_callable_register"
    for key, val in vars(format_checker).items():
        if isinstance(val, dict) and "uuid" in val and callable(val["uuid"]):
            return key
    return None


REGISTRY_ATTR = _registry_attr()
# the registry exactly as the library leaves it after import
PRISTINE_REGISTER = (
    dict(getattr(format_checker, REGISTRY_ATTR)) if REGISTRY_ATTR else {}
)


def reset_registry():
    """Back to the import-time content (by assignment: works whether the
    library mutates the dict in place or replaces it).  Runs execute in
    pristine processes anyway; this only separates the recording run from the
    replay inside one process."""
    if REGISTRY_ATTR:
        setattr(format_checker, REGISTRY_ATTR, dict(PRISTINE_REGISTER))

PROP = "C16"
ENGINE = "H"
RULE = (
    "run i = op list from Random(f'{VERIF_SEED}:C16:{i}') against the real process-wide format_checker (snapshotted and "
    "restored around the run): make(element kind, format name), register(name, predicate from a closed data-described "
    "family), validate(element, value), builtin(fmt, generated canonical UUID / RFC 3339 date-time). Oracle after every "
    "validate: string + name registered -> rejected iff model predicate is False; string + unregistered -> accepted and a "
    "RuntimeWarning was emitted; non-string -> never rejected by the format; newest registration decides, also for elements "
    "made earlier; built-ins accept every generated canonical UUID / RFC 3339 timestamp while still registered. "
    "Non-trivial run: >=1 re-registration that changes the verdict of a previously validated string, >=1 unregistered-format "
    "call and >=1 non-string; distinct = distinct event digests."
)
COMPONENTS = {
    "real": ["statham.schema.validation.format/_FormatString, Format validator, elements; dateutil; uuid; warnings"],
    "seam": ["validator order", "registry snapshot/restore around each run"],
    "stub": ["model registry: dict name -> predicate descriptor"],
}
ASSUMPTIONS = [
    "registered predicates are total and never raise (closed family); their false answer is False or, for 8%, None",
    "elements carry no keyword other than `format` (plus the structural wrapper), as in the property's 'on account of a format'",
    "for sec=60 only real leap-second instants (and their offset-shifted forms) are generated as valid RFC 3339",
    "sampling, not enumeration",
]
REDUCE_ROOTS = (("ops",),)

NAMES = [
    "uuid", "date-time", "fmt-a", "fmt_b", "", "with space", "émoji-✓", "sim-unregistered", "x", "UUID",
    "{", "{}", "uri-template:{id}", "%s", "a\nb", "0",
]
KINDS = ["String", "Element", "Array", "Prop", "AnyOfNull", "Validator", "SavedValidators"]
LEAP_SECOND_DAYS = [
    (1972, 6, 30), (1972, 12, 31), (1990, 12, 31), (1998, 12, 31),
    (2005, 12, 31), (2012, 6, 30), (2015, 6, 30), (2016, 12, 31),
]


# --------------------------------------------------------------------------
# predicates (data -> function; model evaluates the same data)
# --------------------------------------------------------------------------


def evaluate(pred, value):
    kind = pred["t"]
    if kind == "const":
        return bool(pred["v"])
    if kind == "startswith":
        return value.startswith(pred["s"])
    if kind == "len_even":
        return len(value) % 2 == 0
    if kind == "in":
        return value in pred["set"]
    if kind == "isdigit":
        return value.isdigit()
    if kind == "not":
        return not evaluate(pred["p"], value)
    raise ValueError(kind)


def valid_pred(pred):
    if not isinstance(pred, dict):
        return False
    kind = pred.get("t")
    if "falsy" in pred and pred["falsy"] is not True:
        return False
    if "none_for_false" in pred and pred["none_for_false"] is not True:
        return False
    if kind == "const":
        return isinstance(pred.get("v"), bool)
    if kind == "startswith":
        return isinstance(pred.get("s"), str)
    if kind in ("len_even", "isdigit"):
        return True
    if kind == "in":
        return isinstance(pred.get("set"), list)
    if kind == "not":
        return valid_pred(pred.get("p"))
    return False


def valid_case(case):
    for op in case.get("ops", []):
        if op.get("op") == "register" and not (
            valid_pred(op.get("pred")) and isinstance(op.get("name"), str)
        ):
            return False
        if op.get("op") in ("make", "decorator") and not isinstance(op.get("name"), str):
            return False
        if op.get("op") == "apply" and not valid_pred(op.get("pred")):
            return False
    return True


class _FalsyChecker:
    """A perfectly good checker whose truth value is False (an allow-list
    object that is empty, a combinator with __len__ ...): whether a name is
    registered must not be decided by bool(checker)."""

    def __init__(self, pred):
        self.pred = pred

    def __call__(self, value):
        return evaluate(self.pred, value)

    def __bool__(self):
        return False

    def __len__(self):
        return 0


def make_pred(pred):
    pred = copy.deepcopy(pred)
    if pred.get("falsy"):
        return _FalsyChecker(pred)
    if pred.get("none_for_false"):
        # the `lambda v: re.fullmatch(p, v)` idiom: truthy object or None
        def match_like(value):
            return True if evaluate(pred, value) else None

        return match_like

    def checker(value):
        return evaluate(pred, value)

    return checker


def gen_pred(rng):
    pred = _gen_pred(rng)
    if rng.random() < 0.08:
        pred["falsy"] = True  # registered through a callable object with bool() == False
    elif rng.random() < 0.08:
        pred["none_for_false"] = True  # answers None instead of False
    return pred


def _gen_pred(rng):
    roll = rng.random()
    if roll < 0.3:
        return {"t": "const", "v": rng.random() < 0.5}
    if roll < 0.5:
        return {"t": "startswith", "s": rng.choice(["a", "ab", "x", ""])}
    if roll < 0.65:
        return {"t": "len_even"}
    if roll < 0.8:
        return {"t": "in", "set": rng.sample(gen.STRS, rng.randint(0, 4))}
    if roll < 0.9:
        return {"t": "isdigit"}
    return {"t": "not", "p": {"t": "startswith", "s": rng.choice(["a", "x"])}}


# --------------------------------------------------------------------------
# generators for the built-in clause
# --------------------------------------------------------------------------


def gen_uuid(rng):
    hexd = "0123456789abcdef"
    raw = "".join(rng.choice(hexd) for _ in range(32))
    roll = rng.random()
    if roll < 0.1:
        raw = rng.choice(["0", "f"]) * 32
    text = f"{raw[:8]}-{raw[8:12]}-{raw[12:16]}-{raw[16:20]}-{raw[20:]}"
    if rng.random() < 0.3:
        text = text.upper()
    return text, "uuid:upper" if text != text.lower() else "uuid:lower"


def _days_in(year, month):
    leap = year % 4 == 0 and (year % 100 != 0 or year % 400 == 0)
    return (31, 29 if leap else 28, 31, 30, 31, 30, 31, 31, 30, 31, 30, 31)[month - 1]


def gen_rfc3339(rng):
    """-> (text, class tag).  Every output is a valid RFC 3339 date-time."""
    tags = []
    roll = rng.random()
    if roll < 0.08:
        year = 0
        tags.append("year0000")
    elif roll < 0.14:
        year = 1
    elif roll < 0.2:
        year = 9999
    elif roll < 0.35:
        year = rng.choice([1600, 1900, 2000, 2020, 2024, 2100])
    else:
        year = rng.randint(1000, 2999)
    month = rng.randint(1, 12)
    if rng.random() < 0.15:
        month = 2
    day = rng.randint(1, _days_in(year, month))
    if rng.random() < 0.3:
        day = _days_in(year, month)
        if month == 2 and day == 29:
            tags.append("feb29")
    hour, minute, second = rng.randint(0, 23), rng.randint(0, 59), rng.randint(0, 59)
    off_sign, off_h, off_m = "+", 0, 0
    zone_roll = rng.random()
    if zone_roll < 0.35:
        zone = "Z"
    elif zone_roll < 0.45:
        zone = "z"
        tags.append("lower_z")
    else:
        off_sign = rng.choice("+-")
        off_h = rng.choice([0, 0, 1, 5, 8, 12, 14, 23])
        off_m = rng.choice([0, 0, 30, 45, 20, 59])
        zone = f"{off_sign}{off_h:02d}:{off_m:02d}"
        if off_sign == "-" and off_h == 0 and off_m == 0:
            tags.append("minus0000")
    if rng.random() < 0.1:
        # a real leap second, possibly seen from another offset
        year, month, day = rng.choice(LEAP_SECOND_DAYS)
        total = 23 * 60 + 59  # UTC minutes of day
        if zone in ("Z", "z"):
            shift = 0
        else:
            shift = (off_h * 60 + off_m) * (1 if off_sign == "+" else -1)
        local = total + shift
        if local >= 24 * 60:
            local -= 24 * 60
            day += 1
            if day > _days_in(year, month):
                day = 1
                month += 1
                if month > 12:
                    month = 1
                    year += 1
        elif local < 0:
            local += 24 * 60
            day -= 1  # June 30 / Dec 31 minus one day stays in the month
        hour, minute, second = local // 60, local % 60, 60
        tags = [t for t in tags if t not in ("year0000", "feb29")] + ["leap_second"]
    frac = ""
    froll = rng.random()
    if froll < 0.4:
        frac = "." + "".join(rng.choice("0123456789") for _ in range(rng.choice([1, 2, 3, 6, 9, 12])))
        if len(frac) > 7:
            tags.append("long_fraction")
    sep = "T"
    if rng.random() < 0.1:
        sep = "t"
        tags.append("lower_t")
    text = f"{year:04d}-{month:02d}-{day:02d}{sep}{hour:02d}:{minute:02d}:{second:02d}{frac}{zone}"
    return text, "date-time:" + ("+".join(sorted(set(tags))) or "plain")


# --------------------------------------------------------------------------
# generation
# --------------------------------------------------------------------------


def gen_string(rng):
    roll = rng.random()
    if roll < 0.6:
        return rng.choice(gen.STRS + ["12", "7", "abab"])
    if roll < 0.8:
        return gen_uuid(rng)[0]
    return gen_rfc3339(rng)[0]


def gen_nonstring(rng):
    return rng.choice([0, 1, -1, 2.5, True, False, None, [], ["a"], {}, {"a": "b"}, [1, "x"]])


def gen_case(rng):
    perm = gen_perm(rng)
    names = rng.sample(NAMES, rng.randint(2, 5))
    if rng.random() < 0.5 and "uuid" not in names:
        names.append("uuid")
    if rng.random() < 0.5 and "date-time" not in names:
        names.append("date-time")
    ops = []
    n_el = rng.randint(1, 4)
    for eid in range(n_el):
        ops.append(
            {"op": "make", "eid": eid, "kind": rng.choice(KINDS), "name": rng.choice(names)}
        )
    n_ops = rng.choice([6, 10, 15, 22, 30])
    strings = [gen_string(rng) for _ in range(rng.randint(2, 5))]
    p_builtin = rng.choice([0.1, 0.25, 0.5])
    el_name = {op["eid"]: op["name"] for op in ops}
    validated = []  # (eid, value) pairs already validated
    n_deco = 0
    p_werror = rng.choice([0.0, 0.0, 0.1, 0.3])
    for _ in range(n_ops):
        roll = rng.random()
        if roll < 0.05:
            # decorators obtained now and applied later, in another order
            picked = [rng.choice(names) for _ in range(rng.randint(1, 3))]
            dids = []
            for name in picked:
                n_deco += 1
                ops.append({"op": "decorator", "did": n_deco, "name": name})
                dids.append(n_deco)
            rng.shuffle(dids)
            for did in dids:
                ops.append({"op": "apply", "did": did, "pred": gen_pred(rng)})
        elif roll < 0.22:
            name = rng.choice(names)
            ops.append({"op": "register", "name": name, "pred": gen_pred(rng)})
            # faults land inside in-flight state: re-validate strings that were
            # already judged under the previous checker for this name
            again = [pair for pair in validated if el_name[pair[0]] == name]
            for eid, value in rng.sample(again, min(len(again), rng.randint(0, 3))):
                ops.append({"op": "validate", "eid": eid, "value": value})
        elif roll < 0.22 + p_builtin * 0.5:
            if rng.random() < 0.35:
                text, tag = gen_uuid(rng)
                ops.append({"op": "builtin", "fmt": "uuid", "value": text, "class": tag})
            else:
                text, tag = gen_rfc3339(rng)
                ops.append({"op": "builtin", "fmt": "date-time", "value": text, "class": tag})
        elif roll < 0.9:
            eid = rng.randrange(n_el)
            if rng.random() < 0.2:
                value = gen_nonstring(rng)
            elif rng.random() < 0.7:
                value = rng.choice(strings)  # re-validate the same strings
            else:
                value = gen_string(rng)
            vop = {"op": "validate", "eid": eid, "value": value}
            if rng.random() < p_werror:
                vop["wmode"] = "error"
            if isinstance(value, str) and rng.random() < 0.06:
                vop["strsub"] = True
            ops.append(vop)
            if isinstance(value, str):
                validated.append((eid, value))
        else:
            eid = n_el
            n_el += 1
            name = rng.choice(names)
            el_name[eid] = name
            ops.append({"op": "make", "eid": eid, "kind": rng.choice(KINDS), "name": name})
    return {"prop": PROP, "perm": perm, "ops": ops}


# --------------------------------------------------------------------------
# execution
# --------------------------------------------------------------------------


def make_element(kind, name):
    if kind == "String":
        return String(format=name)
    if kind == "Element":
        return Element(format=name)
    if kind == "Array":
        return Array(String(format=name))
    if kind == "Prop":
        return Element(properties={"p": Property(String(format=name))})
    if kind == "AnyOfNull":
        return AnyOf(String(format=name), Null())
    if kind == "Validator":
        # validators are public API and "may be used directly" (docs); a
        # retained Format object must still consult the current registry
        from statham.schema.validation import Format

        return _DirectValidator([Format(name)])
    if kind == "SavedValidators":
        return _DirectValidator(list(String(format=name).validators))
    raise ValueError(kind)


class _DirectValidator:
    """Calls retained validator objects the way Element.__call__ does."""

    def __init__(self, validators):
        self.validators = validators

    def __call__(self, value):
        try:
            from statham.schema.elements.base import UNBOUND_PROPERTY as prop
        except ImportError:
            import types

            prop = types.SimpleNamespace(name="<unbound>", parent=None, source=None)
        for validator in self.validators:
            validator(value, prop)
        return value


class MaskedStr(str):
    """A string whose str() is not its content (like a (str, Enum) member or
    a secret that prints masked): a checker must judge the content."""

    def __str__(self):
        return "***"

    __repr__ = __str__


def wrap(kind, value):
    """Place a value at the position the format applies to."""
    if kind == "Array":
        return [value]
    if kind == "Prop":
        return {"p": value}
    return value


def exec_case(case, log, stats):
    install_validator_order(case.get("perm"))
    saved = dict(PRISTINE_REGISTER)
    # start every run from the registry as it is right after import, whatever
    # earlier runs in this process did and however the register is stored
    reset_registry()
    try:
        return _exec(case, log, stats, saved)
    finally:
        reset_registry()


def _exec(case, log, stats, saved):
    model = {name: {"t": "builtin"} for name in saved}
    elements = {}
    decorators = {}
    seen = {}  # (name, string) -> last verdict, to count verdict-changing re-registrations
    flips = unregistered = nonstrings = 0
    for idx, op in enumerate(case["ops"]):
        kind = op["op"]
        if kind == "make":
            elements[op["eid"]] = (op["kind"], op["name"], make_element(op["kind"], op["name"]))
            log.add(idx, "make", op["kind"], op["name"])
            stats.inc("make:" + op["kind"])
            continue
        if kind == "decorator":
            # obtain the decorator now, apply it later (possibly after other
            # registrations): `d = format_checker.register(name)` ... `d(fn)`
            decorators[op["did"]] = (op["name"], format_checker.register(op["name"]))
            log.add(idx, "decorator", op["name"])
            stats.inc("decorators_obtained")
            continue
        if kind == "apply":
            if op["did"] not in decorators:
                log.add(idx, "apply_skipped")
                continue
            name, deco = decorators.pop(op["did"])
            if name in model:
                stats.inc("re_registrations")
            deco(make_pred(op["pred"]))
            model[name] = op["pred"]
            log.add(idx, "apply", name, op["pred"])
            stats.inc("deferred_registrations_applied")
            continue
        if kind == "register":
            if op["name"] in model:
                stats.inc("re_registrations")
                if model[op["name"]].get("t") == "builtin":
                    stats.inc("builtin_replaced")
            else:
                stats.inc("first_registrations")
            format_checker.register(op["name"])(make_pred(op["pred"]))
            model[op["name"]] = op["pred"]
            log.add(idx, "register", op["name"], op["pred"])
            continue
        if kind == "builtin":
            fmt = op["fmt"]
            if model.get(fmt, {}).get("t") != "builtin":
                stats.inc("builtin_skipped(replaced)")
                log.add(idx, "builtin_skipped")
                continue
            verdict, _, _ = attempt(String(format=fmt), op["value"])
            log.add(idx, "builtin", fmt, op["value"], verdict)
            stats.inc("builtin_calls")
            classes = stats.setdefault("builtin_classes", {})
            classes[op["class"]] = classes.get(op["class"], 0) + 1
            if verdict != "accept":
                return {
                    "invariant": "builtin_rejects_valid",
                    "op_index": idx,
                    "detail": {"fmt": fmt, "value": op["value"], "class": op["class"], "verdict": verdict},
                }
            continue
        # validate
        ekind, name, element = elements[op["eid"]]
        inner = op["value"]
        payload = copy.deepcopy(inner)
        if op.get("strsub") and isinstance(payload, str):
            payload = MaskedStr(payload)
            stats.inc("str_subclass_values")
        value = wrap(ekind, payload)
        if op.get("wmode") == "error":
            # the caller runs with warnings escalated to errors (-W error,
            # pytest filterwarnings=error): the "warning" of an unregistered
            # format then surfaces as the RuntimeWarning exception itself -
            # still a warning produced and still not a rejection
            with warnings.catch_warnings():
                warnings.simplefilter("error")
                verdict, result, _ = attempt(element, value)
            stats.inc("validate_with_warnings_as_errors")
            log.add(idx, "validate_werror", ekind, name, inner, verdict)
            if isinstance(inner, str) and name not in model:
                stats.inc("unregistered_format_calls")
                if verdict != "escape:RuntimeWarning":
                    return {
                        "invariant": "unregistered_format_no_warning"
                        if verdict == "accept"
                        else "unregistered_format_rejects",
                        "op_index": idx,
                        "detail": {"name": name, "value": inner, "verdict": verdict, "warnings": "error"},
                    }
                continue
            warned = False
        else:
            with warnings.catch_warnings(record=True) as caught:
                warnings.simplefilter("always")
                verdict, result, _ = attempt(element, value)
            warned = any(issubclass(w.category, RuntimeWarning) for w in caught)
            log.add(idx, "validate", ekind, name, inner, verdict, warned)
        stats.inc("validate")
        if not isinstance(inner, str):
            nonstrings += 1
            stats.inc("nonstring_values")
            if ekind in ("Element", "Validator"):
                expected = "accept"
            elif ekind == "AnyOfNull":
                expected = "accept" if inner is None else "reject"  # type, not format
            else:
                expected = "reject"  # String's own type check, not the format
            if ekind in ("Element", "Validator") and verdict != "accept":
                return {
                    "invariant": "nonstring_rejected_by_format",
                    "op_index": idx,
                    "detail": {"name": name, "value": inner, "verdict": verdict},
                }
            if verdict != expected:
                return {
                    "invariant": "nonstring_verdict",
                    "op_index": idx,
                    "detail": {"kind": ekind, "name": name, "value": inner, "verdict": verdict, "expected": expected},
                }
            continue
        pred = model.get(name)
        if pred is None:
            unregistered += 1
            stats.inc("unregistered_format_calls")
            if verdict != "accept":
                return {
                    "invariant": "unregistered_format_rejects",
                    "op_index": idx,
                    "detail": {"name": name, "value": inner, "verdict": verdict},
                }
            if not warned:
                return {
                    "invariant": "unregistered_format_no_warning",
                    "op_index": idx,
                    "detail": {"name": name, "value": inner},
                }
            continue
        if pred["t"] == "builtin":
            try:
                # consult the original checker under the same warning filters
                # as the validation (a third-party parser may warn)
                with warnings.catch_warnings():
                    warnings.simplefilter("error" if op.get("wmode") == "error" else "ignore")
                    expected = "accept" if saved[name](inner) else "reject"
            except Exception:  # pylint: disable=broad-except
                stats.inc("builtin_checker_raised")
                continue
            stats.inc("validate_vs_builtin")
        else:
            expected = "accept" if evaluate(pred, inner) else "reject"
            stats.inc("validate_vs_custom")
        key = (name, inner)
        if key in seen and seen[key] != expected:
            flips += 1
            stats.inc("verdict_flips_after_reregistration")
        seen[key] = expected
        if verdict != expected:
            return {
                "invariant": "verdict_differs_from_registered_checker",
                "op_index": idx,
                "detail": {
                    "kind": ekind,
                    "name": name,
                    "value": inner,
                    "pred": pred,
                    "verdict": verdict,
                    "expected": expected,
                },
            }
        if verdict == "accept" and ekind in ("String", "Element") and norm(result) != norm(inner):
            return {
                "invariant": "value_altered",
                "op_index": idx,
                "detail": {"value": inner, "result": norm(result)},
            }
    stats["_nontrivial"] = int(flips >= 1 and unregistered >= 1 and nonstrings >= 1)
    return None


def minimise(case, invariant, budget_s):
    import time

    from sim.driver import still_fails
    from sim.minimise import ddmin_list, reduce_json

    deadline = time.time() + budget_s
    case = copy.deepcopy(case)

    def consistent(ops):
        made = set()
        for op in ops:
            if op["op"] == "make":
                made.add(op["eid"])
            elif op["op"] == "validate" and op["eid"] not in made:
                return False
        return True

    def test(ops):
        if not ops or not consistent(ops):
            return False
        cand = dict(case)
        cand["ops"] = ops
        return still_fails(PROP, cand, invariant)

    case["ops"] = ddmin_list(case["ops"], test, deadline)
    return case


def fault_counts(stats):
    return {
        "re_registrations": stats.get("re_registrations", 0),
        "builtin_replaced": stats.get("builtin_replaced", 0),
        "first(late)_registrations": stats.get("first_registrations", 0),
        "unregistered_format_calls": stats.get("unregistered_format_calls", 0),
        "verdict_flips_after_reregistration": stats.get("verdict_flips_after_reregistration", 0),
        "validator_permutations": "one per run",
    }


def sample_of(case):
    return {"ops": case["ops"][:10]}


def signature(case, violation):
    sig = {"invariant": violation["invariant"]}
    detail = violation.get("detail", {})
    if violation["invariant"] == "builtin_rejects_valid":
        sig["fmt"] = detail.get("fmt")
        sig["class"] = detail.get("class")
    return sig
