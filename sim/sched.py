"""Engine T: deterministic scheduler over real threads.

Exactly one worker thread holds the baton at any time; every `call`, `line`
and `return` (optionally every `opcode`) trace event inside a frame whose file
lies under <repo>/statham/ is a scheduling point at which the simulator may
hand the baton to another runnable thread.  The schedule is recorded as a list
of segments [thread, steps]: "run <thread> for <steps> scheduling points (or
until it finishes)"; any segment list is a valid schedule, which is what makes
the replay file editable by the minimiser.
"""
import ast
import hashlib
import os
import sys
import threading

from sim.common import REPO, HarnessError

PKG = os.path.realpath(os.path.join(REPO, "statham")) + os.sep
STEP_CAP = 60000

# --------------------------------------------------------------------------
# cooperative locks: a lock created through threading.Lock / threading.RLock
# after install_coop_locks() (i.e. by the library or anything it imports)
# never blocks the thread that holds the baton: a contended acquire hands the
# baton to another thread and retries.  Without this, a correct change that
# adds a lock would deadlock the simulator, and a wrong one (lock-order
# inversion) could not be told from it.
# --------------------------------------------------------------------------
ACTIVE = None  # the Scheduler currently running threads, if any
_REAL_LOCK = threading.Lock
_REAL_RLOCK = threading.RLock


class SchedulerDeadlock(Exception):
    """Every unfinished thread is blocked on a lock."""


def _coop_acquire(real, blocking, timeout):
    sch = ACTIVE
    if sch is None or not blocking:
        return real.acquire(blocking, timeout)
    tid = sch.ident2tid.get(threading.get_ident())
    if tid is None:
        return real.acquire(blocking, timeout)
    while not real.acquire(False):
        sch.yield_blocked(tid)
    sch.blocked_spins = 0
    return True


class CoopLock:
    def __init__(self):
        self._real = _REAL_LOCK()

    def acquire(self, blocking=True, timeout=-1):
        return _coop_acquire(self._real, blocking, timeout)

    __enter__ = acquire

    def release(self):
        self._real.release()

    def __exit__(self, *exc):
        self._real.release()

    def locked(self):
        return self._real.locked()

    def _at_fork_reinit(self):
        self._real._at_fork_reinit()  # pylint: disable=protected-access


class CoopRLock:
    def __init__(self):
        self._real = _REAL_RLOCK()

    def acquire(self, blocking=True, timeout=-1):
        return _coop_acquire(self._real, blocking, timeout)

    __enter__ = acquire

    def release(self):
        self._real.release()

    def __exit__(self, *exc):
        self._real.release()

    def _at_fork_reinit(self):
        self._real._at_fork_reinit()  # pylint: disable=protected-access

    def _is_owned(self):
        return self._real._is_owned()  # pylint: disable=protected-access

    def _release_save(self):
        return self._real._release_save()  # pylint: disable=protected-access

    def _acquire_restore(self, state):
        return self._real._acquire_restore(state)  # pylint: disable=protected-access


def install_coop_locks():
    """Must run before the library (and what it imports) is imported."""
    if threading.Lock is not CoopLock:
        threading.Lock = CoopLock
        threading.RLock = CoopRLock


_WRITE_SITES = None


def write_sites():
    """Cached per process (the sources do not change during a check)."""
    global _WRITE_SITES
    if _WRITE_SITES is None:
        _WRITE_SITES = _scan_write_sites()
    return _WRITE_SITES


def _scan_write_sites():
    """(relative file, line) of statements in the package that store into an
    object that is not obviously a fresh local: attribute / subscript stores
    and calls of mutating container methods.  Recomputed on every check, so it
    follows source edits."""
    mutators = {
        "append", "update", "setdefault", "add", "extend", "pop", "clear",
        "remove", "insert", "bind",
    }
    sites = set()
    for root, _, files in os.walk(PKG):
        for name in files:
            if not name.endswith(".py"):
                continue
            path = os.path.join(root, name)
            rel = os.path.relpath(path, PKG)
            try:
                with open(path, encoding="utf8") as fh:
                    tree = ast.parse(fh.read())
            except (OSError, SyntaxError):
                continue
            for node in ast.walk(tree):
                targets = []
                if isinstance(node, ast.Assign):
                    targets = node.targets
                elif isinstance(node, (ast.AugAssign, ast.AnnAssign)):
                    targets = [node.target]
                elif isinstance(node, ast.Delete):
                    targets = node.targets
                for tgt in targets:
                    if isinstance(tgt, (ast.Attribute, ast.Subscript)):
                        sites.add((rel, node.lineno))
                if (
                    isinstance(node, ast.Call)
                    and isinstance(node.func, ast.Attribute)
                    and node.func.attr in mutators
                ):
                    sites.add((rel, node.lineno))
                if isinstance(node, (ast.With, ast.Try)) and isinstance(node, ast.With):
                    # a `with` block usually means "state changed for the
                    # duration of the block and restored afterwards"
                    sites.add((rel, node.lineno))
                    for stmt in node.body:
                        sites.add((rel, stmt.lineno))
    return sites


def package_code_objects():
    """Every code object defined in the package's loaded modules (functions,
    methods, properties, nested functions, lambdas, comprehensions)."""
    import types

    seen = {}

    def add_code(code):
        if id(code) in seen:
            return
        if not os.path.realpath(code.co_filename).startswith(PKG):
            return
        seen[id(code)] = code
        for const in code.co_consts:
            if isinstance(const, types.CodeType):
                add_code(const)

    def add_obj(obj, depth=0):
        if depth > 3:
            return
        if isinstance(obj, (staticmethod, classmethod)):
            obj = obj.__func__
        if isinstance(obj, property):
            for fn in (obj.fget, obj.fset, obj.fdel):
                if fn is not None:
                    add_obj(fn, depth)
            return
        func = getattr(obj, "__wrapped__", None)
        if func is not None and func is not obj:
            add_obj(func, depth + 1)
        code = getattr(obj, "__code__", None)
        if isinstance(code, types.CodeType):
            add_code(code)
            for cell in getattr(obj, "__closure__", None) or ():
                try:
                    add_obj(cell.cell_contents, depth + 1)
                except ValueError:
                    pass
            return
        if isinstance(obj, type):
            for val in list(vars(obj).values()):
                add_obj(val, depth + 1)

    for name in sorted(sys.modules):
        mod = sys.modules[name]
        path = getattr(mod, "__file__", None)
        if not path or not os.path.realpath(path).startswith(PKG):
            continue
        for val in list(vars(mod).values()):
            if getattr(val, "__module__", name) != name and not isinstance(val, type):
                continue
            add_obj(val)
    return list(seen.values())


def _real_semaphore():
    """The scheduler's own semaphores must be built on real locks."""
    sem = threading.Semaphore.__new__(threading.Semaphore)
    sem._cond = threading.Condition(_REAL_LOCK())  # pylint: disable=protected-access
    sem._value = 0  # pylint: disable=protected-access
    return sem


class Policy:
    """Decides, at a scheduling point, which thread runs next."""

    def __init__(self, kind, rng=None, **params):
        self.kind = kind
        self.rng = rng
        self.params = params
        self.near_site = 0

    def choose(self, sched, tid, rel, line):
        runnable = sched.runnable()
        if len(runnable) <= 1:
            return tid
        kind = self.kind
        if kind == "uniform":
            if self.rng.random() < self.params["p"]:
                return self.rng.choice([t for t in runnable if t != tid])
            return tid
        if kind == "sites":
            prob = self.params["p"]
            if (rel, line) in self.params["sites"]:
                self.near_site = self.params.get("window", 3)
            if self.near_site:
                self.near_site -= 1
                prob = self.params["p_site"]
            if self.rng.random() < prob:
                return self.rng.choice([t for t in runnable if t != tid])
            return tid
        if kind == "burst":
            # pre-empt heavily while threads are in their first steps (first
            # use of shared objects), rarely afterwards
            prob = self.params["p_early"] if sched.step <= self.params["k"] else self.params["p"]
            if self.rng.random() < prob:
                return self.rng.choice([t for t in runnable if t != tid])
            return tid
        if kind == "pct":
            prio = self.params["prio"]
            if sched.step in self.params["change_points"]:
                prio[tid] = min(prio.values()) - 1
            return max(runnable, key=lambda t: prio[t])
        raise ValueError(kind)


class Scheduler:
    def __init__(self, n_threads, policy=None, segments=None, opcodes=False, keep_sites=False, step_cap=STEP_CAP):
        self.n = n_threads
        self.policy = policy
        self.replay_segments = [list(s) for s in segments] if segments is not None else None
        self.seg_index = 0
        self.seg_left = 0
        self.opcodes = opcodes
        self.sems = [_real_semaphore() for _ in range(n_threads)]
        self.main_sem = _real_semaphore()
        self.done = [False] * n_threads
        self.started = [False] * n_threads
        self.step = 0
        self.current = None
        self.hash = hashlib.sha256()
        self.segments = []  # recorded: [tid, steps]
        self.switches = 0
        self.capped = False
        self.step_cap = step_cap
        self.errors = []
        self.parked_selfs = {}
        self.overlaps = 0
        self.overlap_sites = {}
        self.switch_sites = {}
        self.keep_sites = keep_sites
        self._files = {}
        self.ident2tid = {}
        self.blocked_spins = 0
        self.lock_yields = 0
        self.deadlock = False

    # -- bookkeeping -------------------------------------------------------
    def runnable(self):
        return [t for t in range(self.n) if not self.done[t]]

    def _rel(self, filename):
        rel = self._files.get(filename)
        if rel is None:
            real = os.path.realpath(filename)
            rel = real[len(PKG):] if real.startswith(PKG) else ""
            self._files[filename] = rel
        return rel

    def _account(self, tid):
        if self.segments and self.segments[-1][0] == tid:
            self.segments[-1][1] += 1
        else:
            self.segments.append([tid, 1])

    def _next_replay(self, tid):
        """Replay mode: who runs at this point?"""
        while True:
            if self.seg_left > 0:
                seg_tid = self.replay_segments[self.seg_index - 1][0]
                if not self.done[seg_tid]:
                    self.seg_left -= 1
                    return seg_tid
                self.seg_left = 0
            if self.seg_index >= len(self.replay_segments):
                return tid if not self.done[tid] else (self.runnable() or [tid])[0]
            seg_tid, steps = self.replay_segments[self.seg_index]
            self.seg_index += 1
            if 0 <= seg_tid < self.n and not self.done[seg_tid] and steps > 0:
                self.seg_left = steps

    def _stack_selfs(self, frame):
        from statham.schema.elements import Element
        from statham.schema.property import _Property

        ids = {}
        depth = 0
        while frame is not None and depth < 60:
            if self._rel(frame.f_code.co_filename):
                names = frame.f_code.co_varnames[: frame.f_code.co_argcount]
                if names:
                    first = frame.f_locals.get(names[0])
                    if isinstance(first, (Element, _Property)):
                        ids[id(first)] = frame.f_code.co_name
            frame = frame.f_back
            depth += 1
        return ids

    # -- the scheduling point -----------------------------------------------
    def point(self, tid, frame, event):
        self.step += 1
        self.blocked_spins = 0
        code = frame.f_code
        rel = self._rel(code.co_filename)
        line = frame.f_lineno or 0
        self.hash.update(f"{tid}:{rel}:{line}:{event[0]};".encode())
        if self.step > self.step_cap:
            self.capped = True
            self._account(tid)
            return
        if self.replay_segments is not None:
            nxt = self._next_replay(tid)
        else:
            nxt = self.policy.choose(self, tid, rel, line)
        if nxt != tid and not self.done[nxt]:
            self.switches += 1
            mine = self._stack_selfs(frame)
            self.parked_selfs[tid] = mine
            theirs = self.parked_selfs.get(nxt)
            if theirs:
                common_ids = set(mine) & set(theirs)
                if common_ids:
                    self.overlaps += 1
                    for oid in common_ids:
                        key = f"{mine[oid]}|{theirs[oid]}"
                        self.overlap_sites[key] = self.overlap_sites.get(key, 0) + 1
            if self.keep_sites:
                key = f"{rel}:{line}"
                self.switch_sites[key] = self.switch_sites.get(key, 0) + 1
            self._account(nxt)
            self.current = nxt
            self.sems[nxt].release()
            self.sems[tid].acquire()
            self.current = tid
        else:
            self._account(tid)

    def yield_blocked(self, tid):
        """`tid` holds the baton but is blocked on a lock another thread owns:
        hand the baton to the next unfinished thread (cyclic order - a pure
        function of the state, identical when recording and replaying) and
        return when it comes back."""
        self.lock_yields += 1
        self.blocked_spins += 1
        others = [t for t in range(self.n) if t != tid and not self.done[t]]
        if not others or self.blocked_spins > 6 * self.n + 6:
            self.deadlock = True
            raise SchedulerDeadlock(f"thread {tid} blocked on a lock nobody can release")
        nxt = min(others, key=lambda t: (t - tid) % self.n)
        self.hash.update(f"blocked{tid}->{nxt};".encode())
        self.current = nxt
        self.sems[nxt].release()
        self.sems[tid].acquire()
        self.current = tid

    def _finish(self, tid):
        self.done[tid] = True
        self.parked_selfs.pop(tid, None)
        runnable = self.runnable()
        if not runnable:
            self.main_sem.release()
            return
        if self.replay_segments is not None:
            nxt = self._next_replay(runnable[0])
            if self.done[nxt]:
                nxt = runnable[0]
        elif self.policy.kind == "pct":
            nxt = max(runnable, key=lambda t: self.policy.params["prio"][t])
        else:
            nxt = self.policy.rng.choice(runnable)
        self.hash.update(f"exit{tid}->{nxt};".encode())
        self._account(nxt)
        self.current = nxt
        self.sems[nxt].release()

    def _tracer(self, tid):
        opcodes = self.opcodes

        def local(frame, event, arg):
            if event == "exception":
                return local
            self.point(tid, frame, event)
            return local

        def global_trace(frame, event, arg):
            if self._rel(frame.f_code.co_filename):
                if opcodes:
                    frame.f_trace_opcodes = True
                self.point(tid, frame, event)
                return local
            return None

        return global_trace

    def _worker(self, tid, fn):
        self.sems[tid].acquire()
        self.started[tid] = True
        self.ident2tid[threading.get_ident()] = tid
        if not self.opcodes:
            sys.settrace(self._tracer(tid))
        try:
            fn()
        except SchedulerDeadlock:
            pass  # reported through self.deadlock
        except BaseException as exc:  # pylint: disable=broad-except
            self.errors.append((tid, repr(exc)))
        finally:
            if not self.opcodes:
                sys.settrace(None)
            self._finish(tid)
            self.ident2tid.pop(threading.get_ident(), None)

    # -- opcode granularity: sys.monitoring with up-front instrumentation ----
    # (sys.settrace's f_trace_opcodes only takes effect after the code object
    # has been re-instrumented, which makes the first run in a process differ
    # from later ones; instrumenting every code object of the package before
    # the threads start makes the step sequence a function of the case alone)
    def _monitoring_on(self):
        mon = sys.monitoring
        tool = mon.DEBUGGER_ID
        if mon.get_tool(tool) is not None:
            raise HarnessError("sys.monitoring debugger tool id already in use")
        mon.use_tool_id(tool, "statham-sim")
        events = mon.events
        mask = (
            events.PY_START | events.PY_RESUME | events.LINE
            | events.INSTRUCTION | events.PY_RETURN | events.PY_YIELD
        )
        self._codes = package_code_objects()
        if self.opcodes == "sites":
            # hybrid granularity: every bytecode is a scheduling point only in
            # functions that contain a write site; elsewhere call/line/return
            wsites = write_sites()
            line_mask = mask & ~events.INSTRUCTION
            for code in self._codes:
                rel = self._rel(code.co_filename)
                has_site = any(
                    (rel, line) in wsites
                    for (_, _, line) in code.co_lines()
                    if line is not None
                )
                mon.set_local_events(tool, code, mask if has_site else line_mask)
        else:
            for code in self._codes:
                mon.set_local_events(tool, code, mask)

        def make(kind):
            def callback(code, *_):
                tid = self.ident2tid.get(threading.get_ident())
                if tid is None:
                    return None
                self.point(tid, sys._getframe(1), kind)  # pylint: disable=protected-access
                return None

            return callback

        for event, kind in (
            (events.PY_START, "call"),
            (events.PY_RESUME, "call"),
            (events.LINE, "line"),
            (events.INSTRUCTION, "opcode"),
            (events.PY_RETURN, "return"),
            (events.PY_YIELD, "return"),
        ):
            mon.register_callback(tool, event, make(kind))

    def _monitoring_off(self):
        mon = sys.monitoring
        tool = mon.DEBUGGER_ID
        events = mon.events
        for event in (
            events.PY_START, events.PY_RESUME, events.LINE,
            events.INSTRUCTION, events.PY_RETURN, events.PY_YIELD,
        ):
            mon.register_callback(tool, event, None)
        for code in self._codes:
            mon.set_local_events(tool, code, 0)
        mon.free_tool_id(tool)

    def run(self, fns, first, timeout=120):
        global ACTIVE
        ACTIVE = self
        try:
            if self.opcodes:
                self._monitoring_on()
                try:
                    return self._run(fns, first, timeout)
                finally:
                    self._monitoring_off()
            return self._run(fns, first, timeout)
        finally:
            ACTIVE = None

    def _run(self, fns, first, timeout=120):
        threads = [
            threading.Thread(target=self._worker, args=(tid, fn), daemon=True)
            for tid, fn in enumerate(fns)
        ]
        for thread in threads:
            thread.start()
        if self.replay_segments is not None:
            first = self._next_replay(0)
        self._account(first)
        self.current = first
        self.sems[first].release()
        if not self.main_sem.acquire(timeout=timeout):
            raise HarnessError("scheduler: threads did not finish (hang / deadlock)")
        for thread in threads:
            thread.join(timeout=10)
        if self.errors:
            raise HarnessError(f"scheduler: worker raised {self.errors}")
        return self.hash.hexdigest()
