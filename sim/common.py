"""Shared plumbing: seeds, seams, digests, worker pool, evidence, replays.

Nothing in here draws from a PRNG or reads a clock on a path that influences
a simulated run; wall-clock is only read to report throughput.
"""
import faulthandler
import hashlib
import json
import os
import random
import sys
import time
import traceback
import warnings
from concurrent.futures import ProcessPoolExecutor, as_completed
import multiprocessing

VERIF = os.path.dirname(os.path.dirname(os.path.abspath(__file__)))
REPO = os.environ.get("VERIF_REPO", "/repo")
# evidence of runs against anything but /repo itself (scratch worktrees with a
# seeded change applied) never lands in the committed evidence directory
EVIDENCE_DIR = os.environ.get(
    "VERIF_EVIDENCE_DIR",
    os.path.join(VERIF, "evidence")
    if os.path.realpath(REPO) == "/repo"
    else os.path.join(REPO, ".evidence"),
)
REPLAY_DIR = os.environ.get("VERIF_REPLAY_DIR", os.path.join(VERIF, "replays"))
KNOWN_FINDINGS = os.path.join(VERIF, "known_findings.json")

CLAIMED = ("C08", "C09", "C13", "C14", "C15", "C16")


class HarnessError(Exception):
    """The machinery itself misbehaved; never reported as pass or VIOLATION."""


# --------------------------------------------------------------------------
# interpreter environment
# --------------------------------------------------------------------------


def ensure_env():
    """Re-exec once so the harness itself never depends on string hashing."""
    if os.environ.get("PYTHONHASHSEED") != "0" or not os.environ.get(
        "STATHAM_VERIF_CHILD"
    ):
        env = dict(os.environ)
        env["PYTHONHASHSEED"] = "0"
        env["PYTHONDONTWRITEBYTECODE"] = "1"
        env["STATHAM_VERIF_CHILD"] = "1"
        env["STATHAM_VERIF"] = "1"
        os.execve(sys.executable, [sys.executable] + sys.argv, env)


def import_statham():
    """Import the library from REPO's working tree (asserted)."""
    if REPO not in sys.path:
        sys.path.insert(0, REPO)
    if "statham" not in sys.modules:
        # locks created by the library (or what it imports) become cooperative
        from sim import sched

        sched.install_coop_locks()
    import statham  # noqa

    path = os.path.realpath(statham.__file__)
    if not path.startswith(os.path.realpath(REPO) + os.sep):
        raise HarnessError(f"statham imported from {path}, expected {REPO}")
    warnings.simplefilter("ignore")
    return statham


# --------------------------------------------------------------------------
# seeds and digests
# --------------------------------------------------------------------------


def base_seed() -> int:
    try:
        return int(os.environ.get("VERIF_SEED", "0"))
    except ValueError:
        return 0


def rng_for(seed: int, prop: str, index: int, salt: str = "") -> random.Random:
    # str seeding goes through SHA-512: independent of PYTHONHASHSEED.
    return random.Random(f"{seed}:{prop}:{index}:{salt}")


def canon(obj) -> str:
    return json.dumps(obj, sort_keys=False, separators=(",", ":"), default=repr)


def digest_of(obj) -> str:
    return hashlib.sha256(canon(obj).encode("utf8")).hexdigest()


class EventLog:
    """Folds every event of a run into one digest (and optionally keeps them)."""

    def __init__(self, keep=False):
        self._h = hashlib.sha256()
        self.n = 0
        self.kept = [] if keep else None

    def add(self, *event):
        data = canon(event)
        self._h.update(data.encode("utf8"))
        self._h.update(b"\n")
        self.n += 1
        if self.kept is not None:
            self.kept.append(event)

    def hexdigest(self):
        return self._h.hexdigest()


# --------------------------------------------------------------------------
# validator-order seam
# --------------------------------------------------------------------------

_ORIG_ALL_SUBCLASSES = None


def _subclasses_of(klass):
    out = []
    for sub in type.__subclasses__(klass):
        if sub not in out:
            out.append(sub)
        for deeper in _subclasses_of(sub):
            if deeper not in out:
                out.append(deeper)
    return out


def validator_classes():
    import statham.schema.validation as V

    return sorted(
        _subclasses_of(V.Validator), key=lambda c: (c.__module__, c.__qualname__)
    )


def install_validator_order(perm):
    """Put `get_validators`' iteration order behind the simulator.

    `perm` is a list of indices into the name-sorted list of Validator
    subclasses (or None for name order).  In production the order is the
    iteration order of a set of classes, i.e. address order; every order is
    legal there, so every run of the simulator picks one.
    """
    global _ORIG_ALL_SUBCLASSES
    import statham.schema.validation as V

    if not hasattr(V, "_all_subclasses"):
        # the seam is gone (the library no longer discovers validators this
        # way): nothing to control; oracles do not depend on it
        return [c.__name__ for c in validator_classes()]
    if _ORIG_ALL_SUBCLASSES is None:
        _ORIG_ALL_SUBCLASSES = V._all_subclasses
    orig = _ORIG_ALL_SUBCLASSES
    classes = validator_classes()
    if perm is None:
        order = classes
    else:
        perm = [i for i in perm if i < len(classes)]
        perm += [i for i in range(len(classes)) if i not in perm]
        order = [classes[i] for i in perm]

    def _all_subclasses(klass):
        if klass is V.Validator:
            return list(order)
        return orig(klass)

    V._all_subclasses = _all_subclasses
    return [c.__name__ for c in order]


def seam_probe():
    """Does replacing `_all_subclasses` really control validator order?"""
    import statham.schema.validation as V
    from statham.schema.elements import Element

    n = len(validator_classes())
    try:
        probe = Element(minLength=1, maxLength=2, minimum=1, maxItems=3)
        install_validator_order(list(range(n)))
        a = [type(v).__name__ for v in V.get_validators(probe)]
        install_validator_order(list(reversed(range(n))))
        b = [type(v).__name__ for v in V.get_validators(probe)]
        return a == list(reversed(b)) and len(a) >= 4 and a != b
    except Exception:  # pylint: disable=broad-except
        return False
    finally:
        install_validator_order(None)


def gen_perm(rng):
    n = len(validator_classes())
    perm = list(range(n))
    rng.shuffle(perm)
    return perm


# --------------------------------------------------------------------------
# worker pool
# --------------------------------------------------------------------------


def _pool_entry(args):
    fn, index, hang_s = args
    faulthandler.enable()
    faulthandler.dump_traceback_later(hang_s, exit=True)
    try:
        return index, fn(index), None
    except Exception:  # pylint: disable=broad-except
        return index, None, traceback.format_exc()
    finally:
        faulthandler.cancel_dump_traceback_later()


def _chunk_entry(args):
    fn, indices, hang_s = args
    out = []
    for index in indices:
        out.append(_pool_entry((fn, index, hang_s)))
    return out


def run_pool(fn, indices, workers=None, hang_s=120, deadline=None, chunk=8):
    """Run fn(index) for all indices on a fork pool; results in index order.

    Returns (results: dict index->result, errors: list of (index, text),
    skipped: list of indices not started because `deadline` passed).
    """
    indices = list(indices)
    workers = workers or int(os.environ.get("VERIF_WORKERS", "0")) or min(
        16, os.cpu_count() or 1
    )
    results, errors, skipped = {}, [], []
    if workers <= 1 or len(indices) <= 1:
        for index in indices:
            if deadline and time.time() > deadline:
                skipped.append(index)
                continue
            _, res, err = _pool_entry((fn, index, hang_s))
            if err:
                errors.append((index, err))
            else:
                results[index] = res
        return results, errors, skipped
    chunks = [indices[i : i + chunk] for i in range(0, len(indices), chunk)]
    ctx = multiprocessing.get_context("fork")
    with ProcessPoolExecutor(
        max_workers=workers, mp_context=ctx, initializer=start_zygotes
    ) as pool:
        pending = {}
        it = iter(chunks)
        exhausted = False

        def submit_more():
            nonlocal exhausted
            while not exhausted and len(pending) < workers * 3:
                try:
                    ch = next(it)
                except StopIteration:
                    exhausted = True
                    return
                if deadline and time.time() > deadline:
                    skipped.extend(ch)
                    continue
                pending[pool.submit(_chunk_entry, (fn, ch, hang_s))] = ch

        submit_more()
        while pending:
            done = next(as_completed(list(pending)))
            ch = pending.pop(done)
            try:
                for index, res, err in done.result():
                    if err:
                        errors.append((index, err))
                    else:
                        results[index] = res
            except Exception as exc:  # worker died (hang watchdog, crash)
                errors.append((ch[0], f"worker died on chunk {ch}: {exc!r}"))
                # the pool is broken after a worker death; stop here
                for other in pending.values():
                    skipped.extend(other)
                pending.clear()
                break
            submit_more()
    return results, errors, skipped


# --------------------------------------------------------------------------
# evidence, findings, replay files
# --------------------------------------------------------------------------


def write_evidence(prop, tier, seed, coverage, wall_s, violations, assumptions):
    os.makedirs(EVIDENCE_DIR, exist_ok=True)
    doc = {
        "property_id": prop,
        "tier": tier,
        "seed": seed,
        "level": "exploration",
        "coverage": coverage,
        "assumptions": assumptions,
        "wall_s": round(wall_s, 3),
        "violations": violations,
    }
    for key in ("evaluations", "distinct_nontrivial", "rule", "samples"):
        if key not in coverage:
            raise HarnessError(f"evidence for {prop} lacks coverage.{key}")
    path = os.path.join(EVIDENCE_DIR, f"{prop}.json")
    tmp = path + ".tmp"
    with open(tmp, "w", encoding="utf8") as fh:
        json.dump(doc, fh, indent=1, default=repr)
        fh.write("\n")
    os.replace(tmp, path)
    return path


def load_known_findings():
    try:
        with open(KNOWN_FINDINGS, encoding="utf8") as fh:
            return json.load(fh)
    except FileNotFoundError:
        return {"open": [], "fixed": []}


def write_replay(prop, name, doc):
    os.makedirs(REPLAY_DIR, exist_ok=True)
    path = os.path.join(REPLAY_DIR, f"{prop}-{name}.json")
    with open(path, "w", encoding="utf8") as fh:
        json.dump(doc, fh, indent=1, default=repr)
        fh.write("\n")
    return path


def merge_counts(dst, src):
    for key, val in src.items():
        if isinstance(val, dict):
            merge_counts(dst.setdefault(key, {}), val)
        else:
            dst[key] = dst.get(key, 0) + val
    return dst


class Counter(dict):
    def inc(self, key, n=1):
        self[key] = self.get(key, 0) + n


# --------------------------------------------------------------------------
# pristine processes: every run and every reference evaluation executes in a
# fork of a "zygote" that has imported the library but never used it, so an
# outcome is a function of (case, code) alone - never of what the worker
# process happened to execute before (process-global caches, registries...).
# --------------------------------------------------------------------------
import pickle
import struct


def _read_exact(fd, n):
    chunks = []
    while n > 0:
        chunk = os.read(fd, min(n, 1 << 20))
        if not chunk:
            raise EOFError
        chunks.append(chunk)
        n -= len(chunk)
    return b"".join(chunks)


def _send(fd, obj):
    data = pickle.dumps(obj, protocol=pickle.HIGHEST_PROTOCOL)
    data = struct.pack("<Q", len(data)) + data
    view = memoryview(data)
    while view:
        written = os.write(fd, view)
        view = view[written:]


def _recv(fd):
    (size,) = struct.unpack("<Q", _read_exact(fd, 8))
    return pickle.loads(_read_exact(fd, size))


def _zygote_child(req_r, res_w, hang_s):
    """Forked *before* the request arrives: read one request, answer it."""
    import gc
    import importlib

    try:
        module, func, args = _recv(req_r)
    except EOFError:
        os._exit(3)
    # canonical collector state: the allocation counters that decide *when*
    # the cyclic GC runs must not depend on how long the zygote has lived
    gc.enable()
    gc.collect()
    code = 1
    try:
        faulthandler.enable()
        faulthandler.dump_traceback_later(hang_s, exit=True)
        try:
            result = ("ok", getattr(importlib.import_module(module), func)(*args))
        except BaseException:  # pylint: disable=broad-except
            result = ("err", traceback.format_exc())
        _send(res_w, result)
        code = 0
    finally:
        os._exit(code)


def _zygote_loop(req_r, res_w, hang_s=170):
    """Keep exactly one pre-forked child waiting for the next request.

    The zygote itself never reads a request or builds an answer: each
    iteration is fork + waitpid, so its heap is in the same steady state at
    every fork and every child starts from the same memory image no matter
    how many requests were served before."""
    import gc

    gc.collect()
    gc.freeze()  # everything imported so far is permanent: children never scan it
    gc.disable()
    for _ in range(4):  # reach the steady state before the first real child
        pid = os.fork()
        if pid == 0:
            os._exit(0)
        os.waitpid(pid, 0)
    while True:
        pid = os.fork()
        if pid == 0:
            _zygote_child(req_r, res_w, hang_s)
        _, status = os.waitpid(pid, 0)
        code = os.waitstatus_to_exitcode(status)
        if code == 3:
            return
        if code != 0:
            _send(res_w, ("err", f"isolated child {pid} died (exit {code}) without answering"))


class RemoteZygote:
    """Client end of a zygote's pipes."""

    def __init__(self, name, req_w, res_r):
        self.name, self.req_w, self.res_r = name, req_w, res_r

    def call(self, module, func, *args):
        _send(self.req_w, (module, func, args))
        try:
            status, value = _recv(self.res_r)
        except EOFError:
            raise HarnessError(f"zygote {self.name} died")
        if status != "ok":
            raise HarnessError(f"isolated call {module}.{func} failed:\n{value}")
        return value

    def close(self):
        for fd in (self.req_w, self.res_r):
            try:
                os.close(fd)
            except OSError:
                pass


_SETARCH = None


def _setarch():
    global _SETARCH
    if _SETARCH is None:
        import subprocess

        try:
            arch = os.uname().machine
            subprocess.run(["setarch", arch, "-R", "true"], check=True, capture_output=True, timeout=20)
            _SETARCH = ["setarch", arch, "-R"]
        except Exception:  # pylint: disable=broad-except
            _SETARCH = []
    return _SETARCH


class Zygote(RemoteZygote):
    """A *canonical* pristine process: a freshly exec'd interpreter with a
    fixed environment, hash seed and (when permitted) address layout, which
    imports the library and then forks one child per request.  Because every
    context (pool worker, parent, replay in a new interpreter) forks its runs
    from an identical memory image, a run is a function of (case, code) even
    for code whose behaviour depends on object addresses or allocator reuse."""

    def __init__(self, name, ref=None):
        import subprocess

        req_r, req_w = os.pipe()
        res_r, res_w = os.pipe()
        pass_fds = [req_r, res_w]
        ref_arg = "-"
        if ref is not None:
            pass_fds += [ref.req_w, ref.res_r]
            ref_arg = f"{ref.req_w:06d},{ref.res_r:06d}"
        env = {
            "PATH": os.environ.get("PATH", "/usr/bin:/bin"),
            "HOME": os.environ.get("HOME", "/root"),
            "LANG": "C.UTF-8",
            "PYTHONHASHSEED": os.environ.get("STATHAM_VERIF_ZYG_HASHSEED", "0"),
            "PYTHONDONTWRITEBYTECODE": "1",
            "STATHAM_VERIF": "1",
            "STATHAM_VERIF_CHILD": "1",
            "VERIF_REPO": REPO,
            "VERIF_OPCODES": os.environ.get("VERIF_OPCODES", "1"),
        }
        if os.environ.get("STATHAM_VERIF_ZYG_PAD"):
            env["STATHAM_VERIF_ZYG_PAD"] = os.environ["STATHAM_VERIF_ZYG_PAD"]
        argv = _setarch() + [
            sys.executable,
            os.path.join(VERIF, "sim", "zygote_main.py"),
            f"{req_r:06d}",  # fixed width: identical allocation sizes everywhere
            f"{res_w:06d}",
            json.dumps(PRELOAD),
            ref_arg,
        ]
        self.proc = subprocess.Popen(argv, env=env, pass_fds=pass_fds, close_fds=True)
        os.close(req_r)
        os.close(res_w)
        super().__init__(name, req_w, res_r)
        try:
            ready = _recv(self.res_r)
        except EOFError:
            raise HarnessError(f"zygote {name} failed to start")
        if ready != ("ready",):
            raise HarnessError(f"zygote {name} failed to start: {ready}")


ZYG_REF = None
ZYG_RUN = None
PRELOAD = []  # (module, func) run before the zygotes fork; must not use the library


def start_zygotes():
    """(Re)create this process's pair of zygotes.  Must be called before the
    process uses the library for anything (pool initializer / command start)."""
    global ZYG_REF, ZYG_RUN
    if os.environ.get("VERIF_NO_ISOLATION") == "1":
        return
    import_statham()
    for old in (ZYG_REF, ZYG_RUN):
        if old is not None:
            old.close()  # inherited from the parent: not ours
    ZYG_REF = Zygote("ref")
    ZYG_RUN = Zygote("run", ref=ZYG_REF)  # its children can reach ZYG_REF


def run_isolated(module, func, *args):
    """Execute module.func(*args) in a pristine process (or inline when
    isolation is off / not started)."""
    if ZYG_RUN is None:
        import importlib

        return getattr(importlib.import_module(module), func)(*args)
    return ZYG_RUN.call(module, func, *args)


def pristine(module, func, *args):
    """Reference evaluation in a pristine process, callable from inside an
    isolated run."""
    if ZYG_REF is None:
        import importlib

        return getattr(importlib.import_module(module), func)(*args)
    return ZYG_REF.call(module, func, *args)
