"""Canonical pristine process (see sim.common.Zygote).

argv: <request fd> <response fd> <json preload list> <ref zygote fds "w,r" | "->
"""
import json
import os
import sys

HERE = os.path.dirname(os.path.dirname(os.path.abspath(__file__)))
sys.path[0] = HERE  # replace the script directory: `sim` is a package of /verif


def main(argv):
    req_r, res_w = int(argv[1]), int(argv[2])
    preload = json.loads(argv[3])
    from sim import common

    common.import_statham()
    import importlib

    # import (not use) everything a request may name, once, before forking
    from sim import driver

    for name in driver.MACHINES.values():
        importlib.import_module(name)
    importlib.import_module("sim.c09")
    for module, func in preload:
        getattr(importlib.import_module(module), func)()
    if argv[4] != "-":
        ref_w, ref_r = (int(x) for x in argv[4].split(","))
        common.ZYG_REF = common.RemoteZygote("ref", ref_w, ref_r)
    common._send(res_w, ("ready",))  # pylint: disable=protected-access
    common._zygote_loop(req_r, res_w)  # pylint: disable=protected-access


if __name__ == "__main__":
    main(sys.argv)
