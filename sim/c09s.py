"""C09, serialiser-order mode (engine H): for hand-declared element trees the
generated Python module and the JSON serialisation must not depend on which
serialiser ran before in the process.

case = {"prop": "C09", "world": <world>}
Each order of serialiser calls is executed on a fresh build of the world in
its own pristine process; all Python texts must be identical and all JSON
texts must be identical.
"""
import json

from sim import common, gen
from sim.world import build

PROP = "C09"
ENGINE = "H"
RULE = (
    "serialiser-order mode: element trees declared through the public constructors (swarm-generated, biased to explicit "
    "`required` + required properties, inheritance, defaults) from Random(f'{VERIF_SEED}:C09S:{i}'); for each of five call "
    "orders (py | json | json,py | py,json,py | repr,json,py,json) a pristine process builds the tree and runs the calls on "
    "every entry point; all python texts must be byte-identical across orders and all JSON texts likewise. Non-trivial: the "
    "world has >=1 model class or an element with properties; distinct = distinct world digests."
)
COMPONENTS = {
    "real": ["serialize_python, serialize_json, ObjectMeta.python, repr; constructors"],
    "seam": ["one pristine process per call order"],
    "stub": [],
}
ASSUMPTIONS = ["serialisers are compared with themselves under different call histories, not with an external oracle"]
REDUCE_ROOTS = (("world",),)
ORDERS = [["py"], ["json"], ["json", "py"], ["py", "json", "py"], ["repr", "json", "py", "json"]]


def run_order(world, order):
    from statham.serializers import serialize_json, serialize_python

    built = build(world)
    entries = [("root", built.root)] + [("class:" + k, v) for k, v in built.classes.items()]
    out = {"py": None, "json": None}
    for kind in order:
        texts = []
        for name, node in entries:
            try:
                if kind == "py":
                    texts.append(serialize_python(node))
                elif kind == "json":
                    texts.append(json.dumps(serialize_json(node), default=repr))
                else:
                    repr(node)
            except Exception as exc:  # pylint: disable=broad-except
                texts.append("EXC:" + type(exc).__name__)
        if kind in out:
            if out[kind] is not None and out[kind] != texts:
                return {"unstable_within_order": kind, "first": out[kind], "again": texts}
            out[kind] = texts
    return out


def gen_case(rng):
    force = ("Class",) + tuple(rng.sample(["explicit_required", "untyped_props", "inherit", "defaults", "pattern_props", "dependencies"], 3))
    world, swarm = gen.gen_world(rng, force=force)
    return {"prop": PROP, "part": "S", "world": world, "swarm": swarm.describe()}


def exec_case(case, log, stats):
    world = case["world"]
    results = [common.pristine("sim.c09s", "run_order", world, order) for order in ORDERS]
    stats.inc("orders_executed", len(ORDERS))
    for order, res in zip(ORDERS, results):
        if "unstable_within_order" in res:
            return {
                "invariant": "serialiser_output_depends_on_call_history",
                "op_index": None,
                "detail": {"order": order, "kind": res["unstable_within_order"], "first": res["first"], "again": res["again"]},
            }
    for kind in ("py", "json"):
        seen = [(order, res[kind]) for order, res in zip(ORDERS, results) if res.get(kind) is not None]
        log.add(kind, common.digest_of(seen[0][1]))
        for order, texts in seen[1:]:
            if texts != seen[0][1]:
                diff = next(
                    (i for i, (a, b) in enumerate(zip(seen[0][1], texts)) if a != b), 0
                )
                return {
                    "invariant": "serialiser_output_depends_on_call_history",
                    "op_index": None,
                    "detail": {
                        "kind": kind,
                        "order_a": seen[0][0],
                        "order_b": order,
                        "text_a": seen[0][1][diff][:1200],
                        "text_b": texts[diff][:1200],
                    },
                }
    stats["_nontrivial"] = int(bool(world.get("classes")) or "properties" in json.dumps(world["root"]))
    return None


def valid_case(case):
    return isinstance(case.get("world"), dict) and "root" in case["world"]


def fault_counts(stats):
    return {"serialiser_call_orders": ORDERS, "orders_executed": stats.get("orders_executed", 0)}


def sample_of(case):
    return {"world": case["world"], "orders": ORDERS}


def signature(case, violation):
    return {"invariant": violation["invariant"]}
