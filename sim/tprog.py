"""Shared helpers for engine-T machines whose threads run arbitrary op
programs (C13/C16/C09 concurrent modes; C14 has its own specialised runner)."""
import random

from sim import sched

_SITES = None


def prepare():
    global _SITES
    _SITES = sched.write_sites()


def sites():
    if _SITES is None:
        prepare()
    return _SITES


def gen_granularity(rng):
    """False = call/line/return events; "sites" = additionally every bytecode
    inside functions that contain a write site."""
    return "sites" if rng.random() < 0.3 else False


def gen_policy(rng, n_threads, est_steps):
    roll = rng.random()
    if roll < 0.25:
        return {"kind": "uniform", "p": rng.choice([0.005, 0.02, 0.05, 0.2])}
    if roll < 0.45:
        return {
            "kind": "burst",
            "p": rng.choice([0.0, 0.002, 0.01]),
            "p_early": rng.choice([0.05, 0.15, 0.4]),
            "k": rng.choice([60, 200, 600]),
        }
    if roll < 0.75:
        return {
            "kind": "sites",
            "p": rng.choice([0.0, 0.005, 0.02]),
            "p_site": rng.choice([0.3, 0.6, 0.9]),
            "window": rng.choice([1, 1, 2, 3]),
        }
    depth = rng.choice([1, 2, 3])
    return {
        "kind": "pct",
        "prio": {
            str(t): p
            for t, p in zip(
                range(n_threads), rng.sample(range(10, 10 + n_threads), n_threads)
            )
        },
        "change_points": sorted(rng.randint(1, max(2, est_steps)) for _ in range(depth)),
    }


def make_policy(desc, rng):
    kind = desc["kind"]
    if kind == "uniform":
        return sched.Policy("uniform", rng, p=desc["p"])
    if kind == "sites":
        return sched.Policy(
            "sites", rng, p=desc["p"], p_site=desc["p_site"], sites=sites(),
            window=desc.get("window", 3),
        )
    if kind == "burst":
        return sched.Policy(
            "burst", rng, p=desc["p"], p_early=desc["p_early"], k=desc["k"]
        )
    if kind == "pct":
        prio = {int(k): v for k, v in desc["prio"].items()}
        return sched.Policy(
            "pct", rng, prio=prio, change_points=set(desc["change_points"])
        )
    raise ValueError(kind)


def record(case, factory):
    """Execute the thread programs once under the case's policy; store the
    explicit schedule.  `factory(sch)` returns one callable per thread."""
    n = len(case["threads"])
    sch = sched.Scheduler(
        n,
        policy=make_policy(case["policy"], random.Random(case["policy_seed"])),
        opcodes=case.get("opcodes") or False,
        step_cap=case.get("step_cap", sched.STEP_CAP),
    )
    sch.run(factory(sch), first=case.get("first", 0))
    case["segments"] = sch.segments
    return sch


def replay(case, factory):
    n = len(case["threads"])
    sch = sched.Scheduler(
        n,
        segments=case["segments"],
        opcodes=case.get("opcodes") or False,
        keep_sites=True,
        step_cap=case.get("step_cap", sched.STEP_CAP),
    )
    digest = sch.run(factory(sch), first=case.get("first", 0))
    return sch, digest


def schedule_stats(stats, sch, case):
    stats.inc("runs")
    if sch.lock_yields:
        stats.inc("lock_contention_yields", sch.lock_yields)
    stats.inc("steps", sch.step)
    stats.inc("preemptions", sch.switches)
    stats.inc("policy:" + case.get("policy", {}).get("kind", "replay"))
    if sch.capped:
        stats.inc("step_cap_hit")
    if sch.overlaps:
        stats.inc("runs_with_overlap_on_shared_object")
        stats.inc("overlap_switches", sch.overlaps)
    wsites = sites()
    at_write = 0
    for key, val in sch.switch_sites.items():
        rel, line = key.rsplit(":", 1)
        if (rel, int(line)) in wsites:
            at_write += val
    stats.inc("preemptions_at_write_sites", at_write)


def minimise_threads(prop_key, case, invariant, budget_s, roots):
    """ddmin ops per thread, then schedule segments, then JSON reduction."""
    import copy
    import time

    from sim.driver import still_fails
    from sim.minimise import ddmin_list, reduce_json

    deadline = time.time() + budget_s
    case = copy.deepcopy(case)

    def fails(cand):
        return still_fails(prop_key, cand, invariant)

    for tid in range(len(case["threads"])):
        ops = case["threads"][tid]

        def test_ops(kept, tid=tid):
            cand = copy.deepcopy(case)
            cand["threads"][tid] = kept
            return fails(cand)

        if len(ops) > 1 or (ops and test_ops([])):
            kept = ddmin_list(ops, test_ops, deadline)
            if test_ops(kept):
                case["threads"][tid] = kept

    def test_segments(segs):
        cand = dict(case)
        cand["segments"] = segs
        return fails(cand)

    segs = ddmin_list(case["segments"], test_segments, deadline)
    if test_segments(segs):
        case["segments"] = segs
    case = reduce_json(case, fails, deadline, roots)
    segs = ddmin_list(case["segments"], test_segments, deadline)
    if test_segments(segs):
        case["segments"] = segs
    return case
