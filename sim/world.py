"""Worlds: JSON-serialisable element-tree specs, builder, paths, observers.

A *world* is data:

    {"shared":  {"s0": <spec>, ...},          # named elements, may be referenced many times
     "classes": [{"id": "c0", "name": "A", "base": null|"cK",
                  "props": {attr: {"el": <spec>, "required": bool, "source": str|null}},
                  "kw": {class keyword: value}}, ...],   # definition order
     "root":    <spec>}
 or {"parsed": <json schema dict>}            # root = parse_element(copy of schema)

A spec is {"k": kind, ...}:
    Element|String|Integer|Number|Boolean|Null|Array : {"k", "kw": {keyword: value}}
    AnyOf|OneOf|AllOf : {"k", "els": [spec...], "kw": {"default": ...}}
    Not : {"k", "el": spec, "kw": {...}}
    Nothing : {"k"}
    Ref : {"k", "id": "sN"}    Class : {"k", "id": "cN"}
Element-valued keywords (see ELEMENT_KW) hold nested specs; all others hold
JSON literals.  build() always goes through the public constructors.
"""
import copy
import json
import types

from statham.schema.constants import NotPassed
from statham.schema.elements import (
    AllOf,
    AnyOf,
    Array,
    Boolean,
    Element,
    Integer,
    Not,
    Nothing,
    Null,
    Number,
    Object,
    OneOf,
    String,
)
from statham.schema.elements.meta import ObjectMeta
from statham.schema.exceptions import ValidationError
from statham.schema.property import Property

KINDS = {
    "Element": Element,
    "String": String,
    "Integer": Integer,
    "Number": Number,
    "Boolean": Boolean,
    "Null": Null,
    "Array": Array,
}
COMPOSITIONS = {"AnyOf": AnyOf, "OneOf": OneOf, "AllOf": AllOf}

# keyword -> shape of its element-valued content
ELEMENT_KW = {
    "items": "one_or_list",
    "additionalItems": "bool_or_one",
    "contains": "one",
    "additionalProperties": "bool_or_one",
    "propertyNames": "one",
    "patternProperties": "dict",
    "dependencies": "dict_list_or_one",
    "properties": "props",
}

CLASS_KW = (
    "default",
    "const",
    "enum",
    "required",
    "minProperties",
    "maxProperties",
    "patternProperties",
    "additionalProperties",
    "propertyNames",
    "dependencies",
    "description",
)

# keywords accepted by each typed constructor (besides Element = everything)
TYPED_KW = {
    "String": (
        "default",
        "const",
        "enum",
        "format",
        "pattern",
        "minLength",
        "maxLength",
        "description",
    ),
    "Integer": (
        "default",
        "const",
        "enum",
        "minimum",
        "maximum",
        "exclusiveMinimum",
        "exclusiveMaximum",
        "multipleOf",
        "description",
    ),
    "Boolean": ("default", "const", "enum", "description"),
    "Null": ("default", "const", "enum", "description"),
    "Array": (
        "items",
        "default",
        "const",
        "enum",
        "additionalItems",
        "minItems",
        "maxItems",
        "uniqueItems",
        "contains",
        "description",
    ),
}
TYPED_KW["Number"] = TYPED_KW["Integer"]
ELEMENT_ALL_KW = (
    "default",
    "const",
    "enum",
    "items",
    "additionalItems",
    "minItems",
    "maxItems",
    "uniqueItems",
    "contains",
    "minimum",
    "maximum",
    "exclusiveMinimum",
    "exclusiveMaximum",
    "multipleOf",
    "format",
    "pattern",
    "minLength",
    "maxLength",
    "required",
    "properties",
    "patternProperties",
    "additionalProperties",
    "minProperties",
    "maxProperties",
    "propertyNames",
    "dependencies",
    "description",
)
TYPED_KW["Element"] = ELEMENT_ALL_KW
# constructor defaults that are not NotPassed
KW_DEFAULTS = {
    "additionalItems": True,
    "uniqueItems": False,
    "additionalProperties": True,
}


class Built:
    """Live objects built from a world."""

    def __init__(self, world):
        self.world = world
        self.shared = {}
        self.classes = {}
        self.root = None

    # -- construction ----------------------------------------------------
    def get_shared(self, sid):
        if sid not in self.shared:
            self.shared[sid] = self.spec(self.world["shared"][sid])
        return self.shared[sid]

    def class_entry(self, cid):
        for entry in self.world["classes"]:
            if entry["id"] == cid:
                return entry
        raise KeyError(cid)

    def get_class(self, cid):
        if cid not in self.classes:
            entry = self.class_entry(cid)
            base = self.get_class(entry["base"]) if entry.get("base") else Object
            kwds = {
                key: self.kw_value(key, val)
                for key, val in entry.get("kw", {}).items()
            }
            props = [
                (attr, self.prop(pspec))
                for attr, pspec in entry.get("props", {}).items()
            ]

            def body(ns, props=props):
                # NB: not ns.update(): dict.update bypasses ObjectClassDict.__setitem__
                for attr, prop in props:
                    ns[attr] = prop

            if entry.get("inline") and not entry.get("base"):
                # the other public way to declare a model
                cls = Object.inline(entry["name"], properties=dict(props), **kwds)
            elif entry.get("metacall") and entry.get("base"):
                # created by calling the metaclass, the way Object.inline, the
                # parser and the library's own tests create models
                from statham.schema.elements.meta import ObjectClassDict, ObjectMeta

                classdict = ObjectClassDict()
                for attr, prop in props:
                    classdict[attr] = prop
                cls = ObjectMeta(entry["name"], (base,), classdict, **kwds)
            else:
                bases = (base,)
                if entry.get("mixin") and entry.get("base"):
                    # a plain (non-model) mixin next to the model base
                    mixin = type("Mixin" + entry["name"], (), {"helper": lambda self: None})
                    bases = (mixin, base) if entry["mixin"] == "first" else (base, mixin)
                cls = types.new_class(entry["name"], bases, kwds, body)
            for key, val in entry.get("post", []):
                setattr(cls, key, self.kw_value(key, val))
            self.classes[cid] = cls
        return self.classes[cid]

    def prop(self, pspec):
        return Property(
            self.spec(pspec["el"]),
            required=bool(pspec.get("required", False)),
            source=pspec.get("source"),
        )

    def kw_value(self, key, val):
        shape = ELEMENT_KW.get(key)
        if shape is None:
            return copy.deepcopy(val)
        if shape == "one":
            return self.spec(val)
        if shape == "bool_or_one":
            return val if isinstance(val, bool) else self.spec(val)
        if shape == "one_or_list":
            if isinstance(val, list):
                return [self.spec(item) for item in val]
            return self.spec(val)
        if shape == "dict":
            return {k: self.spec(v) for k, v in val.items()}
        if shape == "dict_list_or_one":
            return {
                k: (list(v) if isinstance(v, list) else self.spec(v))
                for k, v in val.items()
            }
        if shape == "props":
            return {attr: self.prop(p) for attr, p in val.items()}
        raise ValueError(shape)

    def spec(self, spec):
        kind = spec["k"]
        if kind == "Ref":
            return self.get_shared(spec["id"])
        if kind == "Class":
            return self.get_class(spec["id"])
        if kind == "Nothing":
            return Nothing()
        kwargs = {
            key: self.kw_value(key, val)
            for key, val in spec.get("kw", {}).items()
        }
        if kind in COMPOSITIONS:
            return COMPOSITIONS[kind](
                *[self.spec(sub) for sub in spec["els"]], **kwargs
            )
        if kind == "Not":
            return Not(self.spec(spec["el"]), **kwargs)
        if kind == "Array":
            items = kwargs.pop("items", None)
            if items is None:
                items = Element()
            return Array(items, **kwargs)
        return KINDS[kind](**kwargs)


def build(world):
    """Construct live objects for a world through the public constructors."""
    if "parsed" in world:
        from statham.schema.parser import parse_element

        built = Built(world)
        built.root = parse_element(copy.deepcopy(world["parsed"]))
        return built
    built = Built(world)
    for entry in world.get("classes", []):
        built.get_class(entry["id"])
    for sid in world.get("shared", {}):
        built.get_shared(sid)
    built.root = built.spec(world["root"])
    return built


# --------------------------------------------------------------------------
# paths
# --------------------------------------------------------------------------


def _is_el(obj):
    return isinstance(obj, Element)


def live_children(node):
    """Structural children of a live element: list of (step, child)."""
    out = []

    def one(name):
        val = getattr(node, name, None)
        if _is_el(val):
            out.append((["kw", name], val))

    items = getattr(node, "items", None)
    if isinstance(items, list):
        for idx, item in enumerate(items):
            if _is_el(item):
                out.append((["kwi", "items", idx], item))
    elif _is_el(items):
        out.append((["kw", "items"], items))
    one("additionalItems")
    one("contains")
    props = getattr(node, "properties", None)
    if props:
        for attr, prop in props.items():
            out.append((["prop", attr], prop.element))
    one("additionalProperties")
    pattern = getattr(node, "patternProperties", None)
    if isinstance(pattern, dict):
        for key, val in pattern.items():
            if _is_el(val):
                out.append((["kwk", "patternProperties", key], val))
    one("propertyNames")
    deps = getattr(node, "dependencies", None)
    if isinstance(deps, dict):
        for key, val in deps.items():
            if _is_el(val):
                out.append((["kwk", "dependencies", key], val))
    els = getattr(node, "elements", None)
    if isinstance(els, list):
        for idx, sub in enumerate(els):
            if _is_el(sub):
                out.append((["els", idx], sub))
    if isinstance(node, Not):
        out.append((["not"], node.element))
    return out


def live_nodes(built, limit=200):
    """All element nodes reachable from the world's entry points.

    Returns [(path, node)] in deterministic traversal order, each live object
    once (first path wins).
    """
    seen = set()
    out = []

    def walk(path, node, depth):
        if id(node) in seen or len(out) >= limit or depth > 12:
            return
        seen.add(id(node))
        out.append((path, node))
        for step, child in live_children(node):
            walk(path + [step], child, depth + 1)

    walk([], built.root, 0)
    for cid, cls in built.classes.items():
        walk([["class", cid]], cls, 0)
    for sid, el in built.shared.items():
        walk([["shared", sid]], el, 0)
    return out


def live_resolve(built, path):
    node = built.root
    for step in path:
        kind = step[0]
        if kind == "class":
            node = built.classes[step[1]]
        elif kind == "shared":
            node = built.shared[step[1]]
        elif kind == "kw":
            node = getattr(node, step[1])
        elif kind == "kwi":
            node = getattr(node, step[1])[step[2]]
        elif kind == "kwk":
            node = getattr(node, step[1])[step[2]]
        elif kind == "prop":
            node = node.properties[step[1]].element
        elif kind == "els":
            node = node.elements[step[1]]
        elif kind == "not":
            node = node.element
        else:
            raise ValueError(step)
    return node


# --------------------------------------------------------------------------
# observers
# --------------------------------------------------------------------------


def norm(value, depth=0):
    """Plain, strictly typed, JSON-able rendering of a value or result."""
    if depth > 40:
        return ["deep"]
    if isinstance(value, NotPassed):
        return ["np"]
    if value is None:
        return ["null"]
    if isinstance(value, bool):
        return ["bool", value]
    if isinstance(value, int):
        return ["int", value]
    if isinstance(value, float):
        return ["float", repr(value)]
    if isinstance(value, str):
        return ["str", value]
    if isinstance(value, list):
        return ["list", [norm(v, depth + 1) for v in value]]
    if isinstance(type(value), ObjectMeta):
        inner = getattr(value, "_dict", None)
        if not isinstance(inner, dict):
            return ["obj", type(value).__name__, "nodict"]
        return [
            "obj",
            type(value).__name__,
            [[k, norm(v, depth + 1)] for k, v in inner.items()],
        ]
    if isinstance(value, dict):
        tag = "dict" if type(value) is dict else type(value).__name__
        return [tag, [[k, norm(v, depth + 1)] for k, v in value.items()]]
    if isinstance(value, tuple):
        return ["tuple", [norm(v, depth + 1) for v in value]]
    return ["other", type(value).__name__, repr(value)]


def attempt(fn, *args):
    """-> (verdict, result, exc).  verdict in accept|reject|escape:<Type>."""
    try:
        return "accept", fn(*args), None
    except (ValidationError, TypeError) as exc:
        return "reject", None, exc
    except RecursionError as exc:
        return "escape:RecursionError", None, exc
    except Exception as exc:  # pylint: disable=broad-except
        return f"escape:{type(exc).__name__}", None, exc


_SITES = (
    ("Must be of type", "InstanceOf"),
    ("Schema does not accept any values", "NoMatch"),
    ("Must match constant value", "Const"),
    ("Must be one of these values", "Enum"),
    ("Must contain all required fields", "Required"),
    ("Must not contain unspecified properties", "AdditionalProperties"),
    ("Must contain at least", "Min*"),
    ("Must contain at most", "MaxProperties"),
    ("Must contain fewer than", "MaxItems"),
    ("Property names must match", "PropertyNames"),
    ("Must match defined dependencies", "Dependencies"),
    ("Must not contain additional items", "AdditionalItems"),
    ("Must not contain duplicates", "UniqueItems"),
    ("Must contain one element matching", "Contains"),
    ("Must be greater than or equal", "Minimum"),
    ("Must be less than or equal", "Maximum"),
    ("Must be strictly greater", "ExclusiveMinimum"),
    ("Must be strictly less", "ExclusiveMaximum"),
    ("Must be a multiple of", "MultipleOf"),
    ("Must match regex pattern", "Pattern"),
    ("Must be at least", "MinLength"),
    ("Must be at most", "MaxLength"),
    ("Must match format", "Format"),
    ("Does not match any accepted schema", "Composition:none"),
    ("Does not match all required schemas", "AllOf:some"),
    ("Matches multiple possible models", "OneOf:multi"),
    ("Must not match", "Not"),
)


def abort_site(exc):
    """Which validator aborted a rejected call (the last one named)."""
    if isinstance(exc, TypeError):
        return "TypeError"
    text = str(exc)
    best, pos = "other", -1
    for needle, name in _SITES:
        idx = text.rfind(needle)
        if idx > pos:
            best, pos = name, idx
    return best


def _text(fn):
    try:
        out = fn()
    except Exception as exc:  # pylint: disable=broad-except
        return f"<<{type(exc).__name__}>>"
    if isinstance(out, str):
        return out
    return json.dumps(out, default=repr)


def _sorted_classes(built, node):
    from statham.serializers.orderer import get_children

    out = []
    if isinstance(node, ObjectMeta):
        out.append(node)
    try:
        out += [c for c in get_children(node) if isinstance(c, ObjectMeta)]
    except Exception:  # pylint: disable=broad-except
        pass
    uniq = []
    for cls in out:
        if not any(cls is u for u in uniq):
            uniq.append(cls)
    return uniq


def snapshot_node(node):
    """Every text observable C08 names, for one entry point."""
    from statham.serializers import serialize_json, serialize_python

    parts = {
        "repr": _text(lambda: repr(node)),
        "json": _text(lambda: serialize_json(node)),
        "python": _text(lambda: serialize_python(node)),
    }
    if isinstance(node, ObjectMeta):
        parts["cls_python"] = _text(node.python)
    return parts


def snapshot(built):
    """Observable state of the whole world (texts only; equality separately)."""
    snap = {"root": snapshot_node(built.root)}
    for cid, cls in built.classes.items():
        snap["class:" + cid] = snapshot_node(cls)
    for sid, el in built.shared.items():
        snap["shared:" + sid] = {"repr": _text(lambda el=el: repr(el))}
    return snap


def equal_both_ways(built, fresh):
    """Library equality of every entry point against a fresh build."""
    bad = []

    def cmp(name, a, b):
        try:
            if not (a == b and b == a):
                bad.append(name)
        except Exception as exc:  # pylint: disable=broad-except
            bad.append(f"{name}:<<{type(exc).__name__}>>")

    cmp("root", built.root, fresh.root)
    for cid in built.classes:
        cmp("class:" + cid, built.classes[cid], fresh.classes[cid])
    for sid in built.shared:
        cmp("shared:" + sid, built.shared[sid], fresh.shared[sid])
    return bad


def diff_snap(a, b):
    out = []
    for key in a:
        if a[key] != b.get(key):
            for part in a[key]:
                if a[key][part] != b.get(key, {}).get(part):
                    out.append(f"{key}.{part}")
    return out


# --------------------------------------------------------------------------
# the same paths, on the world (model) side
# --------------------------------------------------------------------------


def class_entry(world, cid):
    for entry in world["classes"]:
        if entry["id"] == cid:
            return entry
    raise KeyError(cid)


def descendants(world, cid):
    out = []
    for entry in world["classes"]:
        base = entry.get("base")
        while base:
            if base == cid:
                out.append(entry["id"])
                break
            base = class_entry(world, base).get("base")
    return out


def effective(world, cid):
    """Effective configuration of a class by the documented inheritance rule:
    a class keyword that is passed wins, otherwise the parent's effective
    value is inherited; properties are the parent's (in order), overridden in
    place, with new ones appended."""
    entry = class_entry(world, cid)
    if entry.get("base"):
        parent = effective(world, entry["base"])
        props = dict(parent["props"])
        kw = dict(parent["kw"])
    else:
        props, kw = {}, {}
    for attr, pspec in entry.get("props", {}).items():
        props[attr] = pspec
    for key, val in entry.get("kw", {}).items():
        kw[key] = val
    for key, val in entry.get("post", []):
        kw[key] = val
    return {"props": props, "kw": kw}


def deref(world, spec):
    """Follow Ref/Class indirections: -> ("el", spec) | ("class", entry)."""
    seen = 0
    while spec["k"] == "Ref":
        spec = world["shared"][spec["id"]]
        seen += 1
        if seen > 50:
            raise ValueError("ref cycle")
    if spec["k"] == "Class":
        return "class", class_entry(world, spec["id"])
    return "el", spec


def spec_children(world, kind, node):
    """Children of a model node: list of (step, child spec)."""
    out = []
    if kind == "class":
        eff = effective(world, node["id"])
        kw, props = eff["kw"], eff["props"]
    else:
        kw = node.get("kw", {})
        props = kw.get("properties") or {}
    items = kw.get("items")
    if isinstance(items, list):
        for idx, item in enumerate(items):
            out.append((["kwi", "items", idx], item))
    elif isinstance(items, dict):
        out.append((["kw", "items"], items))
    for name in ("additionalItems", "contains"):
        if isinstance(kw.get(name), dict):
            out.append((["kw", name], kw[name]))
    for attr, pspec in props.items():
        out.append((["prop", attr], pspec["el"]))
    if isinstance(kw.get("additionalProperties"), dict):
        out.append((["kw", "additionalProperties"], kw["additionalProperties"]))
    for key, val in (kw.get("patternProperties") or {}).items():
        out.append((["kwk", "patternProperties", key], val))
    if isinstance(kw.get("propertyNames"), dict):
        out.append((["kw", "propertyNames"], kw["propertyNames"]))
    for key, val in (kw.get("dependencies") or {}).items():
        if isinstance(val, dict):
            out.append((["kwk", "dependencies", key], val))
    if kind == "el":
        for idx, sub in enumerate(node.get("els", [])):
            out.append((["els", idx], sub))
        if node["k"] == "Not":
            out.append((["not"], node["el"]))
    return out


def spec_nodes(world, limit=200):
    """[(path, kind, node)] for every model node, each underlying node once."""
    seen = []
    out = []

    def walk(path, spec, depth):
        kind, node = deref(world, spec)
        if any(node is s for s in seen) or len(out) >= limit or depth > 12:
            return
        seen.append(node)
        out.append((path, kind, node))
        for step, child in spec_children(world, kind, node):
            walk(path + [step], child, depth + 1)

    walk([], world["root"], 0)
    for entry in world.get("classes", []):
        walk([["class", entry["id"]]], {"k": "Class", "id": entry["id"]}, 0)
    for sid in world.get("shared", {}):
        walk([["shared", sid]], {"k": "Ref", "id": sid}, 0)
    return out


def spec_resolve(world, path):
    """-> (kind, node) for a path on the model side."""
    kind, node = deref(world, world["root"])
    for step in path:
        what = step[0]
        if what == "class":
            kind, node = "class", class_entry(world, step[1])
            continue
        if what == "shared":
            kind, node = deref(world, {"k": "Ref", "id": step[1]})
            continue
        if kind == "class":
            eff = effective(world, node["id"])
            kw, props = eff["kw"], eff["props"]
        else:
            kw = node.get("kw", {})
            props = kw.get("properties") or {}
        if what == "kw":
            child = kw[step[1]]
        elif what in ("kwi", "kwk"):
            child = kw[step[1]][step[2]]
        elif what == "prop":
            child = props[step[1]]["el"]
        elif what == "els":
            child = node["els"][step[1]]
        elif what == "not":
            child = node["el"]
        else:
            raise ValueError(step)
        if not isinstance(child, dict) or "k" not in child:
            raise KeyError(step)
        kind, node = deref(world, child)
    return kind, node
