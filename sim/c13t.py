"""C13, concurrent mode (engine T): threads reconfigure keyword attributes of a
shared tree while other threads validate against it; once every thread has
finished, validation must reflect the final configuration exactly as a freshly
constructed tree would.

case = {"prop": "C13", "world", "perm", "threads": [[op...]...], "probes": [{"path", "arg"}...], schedule fields}
op   = {"op": "call", "path": p, "arg": {"v": json}}
     | {"op": "set_kw", "path": p, "kw": k, "val": {"set": literal} | {"unset": 1}}     (literal keywords only)
"""
import copy

from sim import c13, common, gen, tprog
from sim.common import gen_perm, install_validator_order
from sim.world import ELEMENT_KW, attempt, build, descendants, live_resolve, norm, spec_nodes, spec_resolve

PROP = "C13"
ENGINE = "T"
RULE = (
    "concurrent mode: a shared tree, 2-4 threads x 1-4 ops (validation calls, literal-keyword reassignments, property "
    "table edits; no two threads write the same (element, keyword) or the same property table) from Random(f'{VERIF_SEED}:C13T:{i}') under the baton-passing scheduler. "
    "Oracle at quiescence: for probe values aimed at every reconfigured element and at the root, (verdict, normalised "
    "result) on the live tree equals that of build(M_final) - same process and pristine process - where M_final is the "
    "model with every reassignment applied; a validation that overlapped <=3 atomic reassignments must not die with "
    "an exception other than a rejection (accept/reject under mixed old/new state is not judged). Non-trivial run: >=1 reassignment pre-empted by / overlapping a validation "
    "of the same element in another thread, and >=1 probe whose verdict differs between initial and final configuration."
)
COMPONENTS = {
    "real": ["statham/* from /repo working tree", "CPython threads"],
    "seam": ["semaphores deciding which thread runs", "validator order"],
    "stub": ["model M_final = world spec with all reassignments applied; reference = build(M_final)"],
}
ASSUMPTIONS = [
    "only literal-valued keywords are reassigned concurrently and no two threads write the same (element, keyword), so the final configuration is independent of the schedule",
    "verdicts of validations that run *while* another thread reconfigures are not judged; only the state after all threads finished",
]
REDUCE_ROOTS = (("threads",), ("probes",))


def prepare():
    tprog.prepare()


def _literal_kws(kname):
    return [k for k in c13.SETTABLE.get(kname, ()) if k not in ELEMENT_KW]


def _factory(case, built, record):
    def factory(sch):
        fns = []
        for tid, ops in enumerate(case["threads"]):
            prepared = []
            for op in ops:
                if op["op"] == "call":
                    prepared.append(("call", live_resolve(built, op["path"]), copy.deepcopy(op["arg"]["v"])))
                else:
                    prepared.append(("set", op, None))

            def fn(tid=tid, prepared=prepared):
                for idx, (kind, target, value) in enumerate(prepared):
                    start = sch.step
                    if kind == "call":
                        out = attempt(target, value)[0]
                    else:
                        c13.apply_live(built, target)
                        out = None
                    record[(tid, idx)] = (start, sch.step, out)

            fns.append(fn)
        return fns

    return factory


def _final_model(case):
    model = copy.deepcopy(case["world"])
    for ops in case["threads"]:
        for op in ops:
            if op["op"] != "call":
                c13.apply_model(model, op)
    return model


def gen_case(rng):
    perm = gen_perm(rng)
    install_validator_order(perm)
    world, swarm = gen.gen_world(
        rng,
        force=tuple(rng.sample(["Class", "untyped_props", "Array", "Integer", "Number", "String"], 3)),
    )
    c13.hoist(world)
    model = copy.deepcopy(world)
    wg = gen.WorldGen(rng, swarm)
    wg.world = model
    nodes = [
        (path, kind, node)
        for path, kind, node in spec_nodes(model)
        # as in the sequential machine: classes that have subclasses are not
        # reconfigured (the effect on existing children is unspecified)
        if (kind == "class" and not descendants(model, node["id"]))
        or (kind == "el" and _literal_kws(node["k"]))
    ]
    n_threads = rng.choice([2, 2, 3, 4])
    taken = set()
    threads = []
    touched = []
    scratch = build(model)
    props_owner = {}  # str(path) -> tid : one thread owns a node's property table
    for tid in range(n_threads):
        ops = []
        for _ in range(rng.randint(1, 4)):
            roll_kind = rng.random()
            if nodes and roll_kind < 0.15:
                # add / replace / remove / reassign properties (one owner per node,
                # and nobody else works below that node)
                cands = [
                    n for n in nodes
                    if (n[1] == "class" or n[2]["k"] == "Element")
                    and props_owner.get(str(n[0]), tid) == tid
                    and not any(
                        str(p).startswith(str(n[0])[:-1]) and str(p) != str(n[0])
                        for p in touched
                    )
                ]
                if cands:
                    path, kind, node = rng.choice(cands)
                    op = c13.gen_reconfig_for(rng, wg, model, path, kind, node, True)
                    if op is not None:
                        try:
                            trial = copy.deepcopy(model)
                            c13.apply_model(trial, op)
                            build(trial)
                            c13.apply_live(build(model), op)
                        except Exception:  # pylint: disable=broad-except
                            op = None
                    if op is not None:
                        c13.apply_model(model, op)  # later ops of this thread see it
                        scratch = build(model)
                        props_owner[str(path)] = tid
                        ops.append(op)
                        if path not in touched:
                            touched.append(path)
                        nodes = [
                            n for n in nodes
                            if not (str(n[0]).startswith(str(path)[:-1]) and str(n[0]) != str(path))
                        ]
                continue
            if nodes and roll_kind < 0.55:
                path, kind, node = rng.choice(nodes if not touched or rng.random() < 0.5 else [n for n in nodes if n[0] in touched] or nodes)
                kname = "Class" if kind == "class" else node["k"]
                kws = _literal_kws(kname)
                cur = node.get("kw", {})
                kw = c13._relevant_kw(rng, kname, cur, kws) if rng.random() < 0.7 else rng.choice(kws)
                if kw in ELEMENT_KW:
                    continue
                key = (str(path), kw)
                if any(key == k and t != tid for k, t in taken):
                    continue
                taken.add((key, tid))
                if kw in cur and rng.random() < 0.3:
                    val = {"unset": 1}
                else:
                    val = {"set": c13.gen_kw_value(rng, wg, kw)}
                op = {"op": "set_kw", "path": path, "kw": kw, "val": val}
                try:
                    trial = copy.deepcopy(model)
                    c13.apply_model(trial, op)
                    build(trial)
                except Exception:  # pylint: disable=broad-except
                    continue
                ops.append(op)
                if path not in touched:
                    touched.append(path)
            else:
                pool = touched + [[]] if touched else [[]] + [n[0] for n in nodes[:3]]
                path = rng.choice(pool)
                try:
                    val = gen.gen_value(rng, live_resolve(scratch, path))
                except Exception:  # pylint: disable=broad-except
                    continue
                ops.append({"op": "call", "path": path, "arg": {"v": val}})
        threads.append(ops)
    case = {
        "prop": PROP,
        "part": "T",
        "world": world,
        "perm": perm,
        "threads": threads,
        "first": rng.randrange(n_threads),
        "policy": tprog.gen_policy(rng, n_threads, 300 * sum(len(t) for t in threads)),
        "policy_seed": rng.getrandbits(48),
        "opcodes": tprog.gen_granularity(rng),
    }
    # probes: aimed at the initial and at the final configuration
    final = build(_final_model(case))
    probes = []
    for path in touched + [[]]:
        for tree in (scratch, final):
            try:
                node = live_resolve(tree, path)
            except Exception:  # pylint: disable=broad-except
                continue
            for _ in range(3):
                probes.append({"path": path, "arg": {"v": gen.gen_value(rng, node)}})
    case["probes"] = probes
    tprog.record(case, _factory(case, build(world), {}))
    return case


def reference(model, probes, perm):
    """Probe outcomes on a fresh build of `model` (for common.pristine)."""
    install_validator_order(perm)
    out = []
    for probe in probes:
        fresh = build(model)
        verdict, result, _ = attempt(live_resolve(fresh, probe["path"]), copy.deepcopy(probe["arg"]["v"]))
        out.append([verdict, norm(result) if verdict == "accept" else None])
    return out


def exec_case(case, log, stats):
    install_validator_order(case.get("perm"))
    built = build(case["world"])
    record = {}
    sch, digest = tprog.replay(case, _factory(case, built, record))
    log.add("schedule", digest, sch.step, sch.switches)
    tprog.schedule_stats(stats, sch, case)
    overlap = 0
    spans = []
    record_out = {}
    for tid, ops in enumerate(case["threads"]):
        for idx, op in enumerate(ops):
            start, end, out = record[(tid, idx)]
            record_out[(tid, id(op))] = out
            log.add(tid, idx, op["op"], op["path"], op.get("kw"), out)
            spans.append((tid, op, start, end))
            stats.inc("call_ops" if op["op"] == "call" else op["op"] + "_ops")
    for tid, op, start, end in spans:
        if op["op"] == "call":
            continue
        for tid2, op2, start2, end2 in spans:
            if tid2 != tid and op2["op"] == "call" and start2 <= end and start <= end2:
                overlap += 1
    stats.inc("reassignments_overlapping_a_validation", overlap)
    # ---- validations that ran while others reconfigured ---------------------
    # Every reconfiguration is a single attribute rebinding, so a validation
    # sees, for each overlapping reconfiguration, either its old or its new
    # state: its verdict must be the verdict under one of those combinations.
    import itertools

    reconf = sorted(
        [x for x in spans if x[1]["op"] != "call"], key=lambda x: (x[2], x[0])
    )
    props_paths = [str(x[1]["path"]) for x in reconf if x[1]["op"] != "set_kw"]
    for tid, op, start, end in spans:
        if op["op"] != "call":
            continue
        verdict = record_out[(tid, id(op))]
        if any(
            str(op["path"]).startswith(p[:-1]) and str(op["path"]) != p for p in props_paths
        ):
            stats.inc("inflight_not_judged(target below a reassigned property table)")
            continue
        before = [x for x in reconf if x[3] < start]
        over = [x for x in reconf if not x[3] < start and x[2] <= end]
        if len(over) > 3:
            stats.inc("inflight_not_judged(>3 overlapping reconfigurations)")
            continue
        if any(x[1]["op"] in ("set_prop", "del_prop", "rename_prop") for x in over):
            # in-place edits of a dict that another thread iterates are plain
            # Python semantics (RuntimeError: dictionary changed size); no
            # property promises anything about them.  Attribute rebindings
            # (keyword assignment, `properties = {...}`) are atomic and judged.
            stats.inc("inflight_not_judged(overlaps an in-place property-table edit)")
            continue
        allowed = set()
        for size in range(len(over) + 1):
            for subset in itertools.combinations(over, size):
                chosen = sorted(before + list(subset), key=lambda x: (x[2], x[0]))
                try:
                    model_c = copy.deepcopy(case["world"])
                    for item in chosen:
                        c13.apply_model(model_c, item[1])
                    target = live_resolve(build(model_c), op["path"])
                except Exception:  # pylint: disable=broad-except
                    continue
                allowed.add(attempt(target, copy.deepcopy(op["arg"]["v"]))[0])
        stats.inc("inflight_validations_judged")
        if over:
            stats.inc("inflight_validations_overlapping_a_reconfiguration")
        if allowed and verdict not in allowed and not str(verdict).startswith("escape:"):
            # A validation reads the configuration several times (validators,
            # then the property table again while constructing); a rebinding
            # in between legitimately gives it old state for one read and new
            # state for another, so an accept/reject that matches neither
            # whole configuration is NOT a violation of anything stated.
            stats.inc("inflight_mixed_state_verdicts(not judged)")
            continue
        if allowed and verdict not in allowed:
            return {
                "invariant": "concurrent_verdict_unexplained",
                "op_index": None,
                "detail": {
                    "call": op,
                    "verdict": verdict,
                    "allowed": sorted(allowed),
                    "overlapping_reconfigurations": [x[1] for x in over],
                    "steps": sch.step,
                    "preemptions": sch.switches,
                },
            }
    model = _final_model(case)
    live_out = []
    for probe in case["probes"]:
        verdict, result, _ = attempt(live_resolve(built, probe["path"]), copy.deepcopy(probe["arg"]["v"]))
        live_out.append([verdict, norm(result) if verdict == "accept" else None])
    log.add("probes", live_out)
    same_process = reference(model, case["probes"], case.get("perm"))
    pristine = common.pristine("sim.c13t", "reference", model, case["probes"], case.get("perm"))
    initial = reference(case["world"], case["probes"], case.get("perm"))
    for idx, probe in enumerate(case["probes"]):
        if "escape:RecursionError" in (live_out[idx][0], same_process[idx][0], pristine[idx][0]):
            continue
        if live_out[idx] != same_process[idx] or live_out[idx] != pristine[idx]:
            return {
                "invariant": "stale_after_concurrent_reconfiguration",
                "op_index": idx,
                "detail": {
                    "probe": probe,
                    "live": live_out[idx],
                    "fresh_tree_final_configuration": same_process[idx],
                    "pristine_process": pristine[idx],
                    "steps": sch.step,
                    "preemptions": sch.switches,
                },
            }
    flips = sum(1 for a, b in zip(initial, same_process) if a[0] != b[0])
    stats.inc("probe_verdict_flips_initial_vs_final", flips)
    stats["_nontrivial"] = int(overlap >= 1 and flips >= 1)
    return None


def minimise(case, invariant, budget_s):
    return tprog.minimise_threads("C13T", case, invariant, budget_s, REDUCE_ROOTS)


def valid_case(case):
    if not isinstance(case.get("threads"), list) or not isinstance(case.get("probes"), list):
        return False
    seen = {}
    for tid, ops in enumerate(case["threads"]):
        for op in ops:
            if op.get("op") == "set_kw":
                if not isinstance(op.get("val"), dict) or not ("set" in op["val"] or "unset" in op["val"]):
                    return False
                key = (str(op.get("path")), op.get("kw"))
                if seen.setdefault(key, tid) != tid:
                    return False
                try:
                    kind, node = spec_resolve(case["world"], op["path"])
                except Exception:  # pylint: disable=broad-except
                    return False
                if kind == "class" and descendants(case["world"], node["id"]):
                    return False
                if op.get("kw") in ELEMENT_KW:
                    return False
            elif op.get("op") == "call":
                if not isinstance(op.get("arg"), dict) or "v" not in op["arg"]:
                    return False
            elif op.get("op") in ("set_prop", "del_prop", "replace_props", "rename_prop"):
                key = (str(op.get("path")), "<properties>")
                if seen.setdefault(key, tid) != tid:
                    return False
                try:
                    kind, node = spec_resolve(case["world"], op["path"])
                except Exception:  # pylint: disable=broad-except
                    return False
                if kind == "class" and descendants(case["world"], node["id"]):
                    return False
            else:
                return False
    return all(isinstance(p.get("arg"), dict) and "v" in p["arg"] for p in case["probes"])


def fault_counts(stats):
    return {
        "preemptions": stats.get("preemptions", 0),
        "preemptions_at_write_sites": stats.get("preemptions_at_write_sites", 0),
        "reassignments_overlapping_a_validation": stats.get("reassignments_overlapping_a_validation", 0),
        "policies": {k.split(":", 1)[1]: v for k, v in stats.items() if k.startswith("policy:")},
    }


def sample_of(case):
    return {"world": case["world"], "threads": case["threads"], "probes": case["probes"][:3], "policy": case.get("policy")}


def signature(case, violation):
    return {"invariant": violation["invariant"]}
