"""C15 - a subclass means parent + additions; the parent is isolated (engine H).

The live side declares real subclasses (types.new_class == a class statement);
the model keeps, per class, the *effective* configuration computed by the
documented merge rule at definition time plus the class's own later
reconfigurations, as a world of flat classes declared directly on Object.

op = {"op": "define", "entry": <class entry with base>, "probes": [values]}
   | {"op": "use", "cid": c, "arg": {"v": json} | {"np": 1}}
   | {"op": "set_kw"|"set_prop"|"del_prop"|"replace_props", "path": [["class", c]], ..., "probes": [values]}
"""
import copy
import json

from statham.schema.constants import NotPassed
from statham.schema.elements import Object
from statham.serializers import serialize_json, serialize_python

from sim import c13, gen
from sim.common import gen_perm, install_validator_order
from sim.world import (
    Built,
    abort_site,
    attempt,
    build,
    class_entry,
    descendants,
    norm,
)

PROP = "C15"
ENGINE = "H"
RULE = (
    "run i = op list from Random(f'{VERIF_SEED}:C15:{i}') over a growing family of model classes: define(name, base, "
    "props, keywords) with chains up to depth 4, use(cls, value | NotPassed), reconfigure(cls, C13 vocabulary). After "
    "every op (a) every class whose ancestors were not reconfigured since its definition is compared with flat(X) - "
    "one class declared directly on Object with the merged configuration - on verdict+normalised result over its "
    "probe values and on serialize_json, and accepted results must be instances of every ancestor; (b) isolation: "
    "every class not itself targeted (nor a descendant of a reconfigured class) must show unchanged verdicts, "
    "serialize_json, serialize_python and .python() text. Non-trivial run: chain depth >=2, >=1 keyword or property "
    "override, >=1 use/reconfigure of a child followed by a check of its parent; distinct = distinct event digests."
)
COMPONENTS = {
    "real": ["statham/* from /repo working tree (ObjectMeta.__new__, _Property.clone, validators, serializers)"],
    "seam": ["validator order (seed-chosen permutation, fixed per run)"],
    "stub": ["model: flat classes on Object built from the effective configuration (documented merge rule)"],
}
ASSUMPTIONS = [
    "children of a parent that is reconfigured after their definition are excluded from the flat-equivalence check from then on (unspecified by the property); isolation still applies to them",
    "in-place mutation of keyword values by the user (cls.enum.append) is not generated",
    "families are bounded: <=6 classes, chain depth <=4, <=14 ops",
    "sampling, not enumeration",
]
REDUCE_ROOTS = (("ops",),)
MAX_CLASSES = 6


def _merge(flat_world, entry):
    """Effective configuration of a new class by the documented rule, using
    the base's *current* effective configuration."""
    if entry.get("base"):
        base = class_entry(flat_world, entry["base"])
        props = copy.deepcopy(base["props"])
        kw = copy.deepcopy(base["kw"])
    else:
        props, kw = {}, {}
    for attr, pspec in entry.get("props", {}).items():
        props[attr] = copy.deepcopy(pspec)
    for key, val in entry.get("kw", {}).items():
        kw[key] = copy.deepcopy(val)
    return {
        "id": entry["id"],
        "name": entry["name"],
        "base": None,
        "props": props,
        "kw": kw,
    }


def _empty_world():
    return {"shared": {}, "classes": [], "root": {"k": "Element", "kw": {}}}


class Family:
    """Live inheritance world + flat model world, advanced op by op."""

    def __init__(self):
        self.inh = _empty_world()
        self.flat = _empty_world()
        self.live = Built(self.inh)
        self.flatlive = Built(self.flat)
        self.tainted = set()
        self.probes = {}

    def ancestors(self, cid):
        out = []
        base = class_entry(self.inh, cid).get("base")
        while base:
            out.append(base)
            base = class_entry(self.inh, base).get("base")
        return out

    def apply(self, op):
        """-> set of class ids whose behaviour may legitimately change."""
        if op["op"] == "define":
            entry = copy.deepcopy(op["entry"])
            self.flat["classes"].append(_merge(self.flat, entry))
            self.inh["classes"].append(entry)
            self.live.get_class(entry["id"])
            self.flatlive.get_class(entry["id"])
            self.probes[entry["id"]] = list(op.get("probes", []))
            return {entry["id"]}
        if op["op"] == "use":
            return set()
        cid = op["path"][0][1]
        c13.apply_model(self.flat, op)
        c13.apply_live(self.live, op)
        c13.apply_live(self.flatlive, op)
        self.probes[cid] = self.probes[cid] + list(op.get("probes", []))
        desc = set(descendants(self.inh, cid))
        # children of a reconfigured parent: unspecified from now on; so is
        # every class whose configuration refers to such a child
        self.tainted = self.dependants(self.tainted | desc)
        # classes that refer to the reconfigured class (property typed by it,
        # ...) legitimately change with it
        return self.dependants({cid} | desc)

    def refs(self, cid):
        found = set()

        def walk(doc):
            if isinstance(doc, dict):
                if doc.get("k") == "Class" and "id" in doc:
                    found.add(doc["id"])
                for val in doc.values():
                    walk(val)
            elif isinstance(doc, list):
                for val in doc:
                    walk(val)

        entry = class_entry(self.flat, cid)
        walk(entry["props"])
        walk(entry["kw"])
        return found

    def dependants(self, seeds):
        """`seeds` plus every class whose configuration (transitively) refers
        to one of them."""
        out = set(seeds)
        changed = True
        while changed:
            changed = False
            for entry in self.flat["classes"]:
                if entry["id"] not in out and self.refs(entry["id"]) & out:
                    out.add(entry["id"])
                    changed = True
        return out


def _value(val):
    if isinstance(val, dict) and val.get("__np__") == 1:
        return NotPassed()
    return copy.deepcopy(val)


def _jtext(fn):
    try:
        return json.dumps(fn(), default=repr)
    except Exception as exc:  # pylint: disable=broad-except
        return f"<<{type(exc).__name__}>>"


def _text(fn):
    try:
        return fn()
    except Exception as exc:  # pylint: disable=broad-except
        return f"<<{type(exc).__name__}>>"


def observe(cls, probes, ancestors=()):
    verdicts = []
    bad_instance = None
    for val in probes:
        verdict, result, _ = attempt(cls, _value(val))
        verdicts.append([verdict, norm(result) if verdict == "accept" else None])
        if verdict == "accept" and isinstance(result, Object):
            for anc in ancestors:
                if not isinstance(result, anc):
                    bad_instance = anc.__name__
    return {
        "verdicts": verdicts,
        "json": _jtext(lambda: serialize_json(cls)),
        "python": _text(cls.python),
        "module": _text(lambda: serialize_python(cls)),
        "bad_instance": bad_instance,
    }


def texts(cls):
    """Serialisation observables that need no validation call."""
    return {
        "json": _jtext(lambda: serialize_json(cls)),
        "python": _text(cls.python),
        "module": _text(lambda: serialize_python(cls)),
    }


# --------------------------------------------------------------------------
# generation
# --------------------------------------------------------------------------


def gen_probes(rng, cls, n):
    out = []
    for _ in range(n):
        if rng.random() < 0.1:
            out.append({"__np__": 1})
        else:
            out.append(gen.gen_value(rng, cls))
    return out


def gen_case(rng):
    perm = gen_perm(rng)
    install_validator_order(perm)
    swarm = gen.Swarm(
        rng,
        force=("Class", "inherit")
        + tuple(rng.sample(["explicit_required", "defaults", "pattern_props", "additional", "dependencies", "const_enum", "minmax_props", "prop_names"], 3)),
        forbid=("shared",),
    )
    swarm.max_depth = min(swarm.max_depth, 2)
    fam = Family()
    wg = gen.WorldGen(rng, swarm)
    wg.world = fam.inh
    ops = []
    n_ops = rng.choice([4, 6, 8, 10, 14])
    n_probe = rng.choice([3, 5, 8])
    p_define = rng.choice([0.3, 0.45, 0.6])
    for step in range(n_ops):
        classes = fam.inh["classes"]
        roll = rng.random()
        if not classes or (roll < p_define and len(classes) < MAX_CLASSES):
            base = None
            if classes and rng.random() < 0.8:
                # prefer deep chains
                base = rng.choice(classes[-2:] if rng.random() < 0.6 else classes)["id"]
                if len(fam.ancestors(base)) >= 3:
                    base = classes[0]["id"]
            before = len(classes)
            entry = wg.new_class(1, base)
            classes.pop()  # Family.apply appends it again
            assert len(classes) == before
            if base and rng.random() < 0.5:
                # override one inherited property explicitly
                inherited = class_entry(fam.flat, base)["props"]
                if inherited:
                    attr = rng.choice(list(inherited))
                    entry["props"][attr] = {
                        "el": wg.element(2),
                        "required": rng.random() < 0.5,
                        # re-declared with the same explicit source, or without one
                        "source": inherited[attr].get("source") if rng.random() < 0.5 else None,
                    }
            if base and rng.random() < 0.3:
                # child adds a required property (the known hot spot with an
                # inherited explicit class-level `required`)
                entry["props"].setdefault(
                    rng.choice(gen.PROP_NAMES),
                    {"el": wg.element(2), "required": True, "source": None},
                )
            op = {"op": "define", "entry": entry, "probes": []}
            try:
                trial = Family()
                for prev in ops:
                    trial.apply(prev)
                trial.apply(op)
                build(trial.flat)
            except Exception:  # pylint: disable=broad-except
                continue  # illegal declaration (reserved name etc.)
            fam.apply(op)
            cls = fam.live.classes[entry["id"]]
            op["probes"] = gen_probes(rng, cls, n_probe)
            fam.probes[entry["id"]] = list(op["probes"])
            ops.append(op)
            continue
        target = rng.choice(classes)
        # prefer children: the isolation claim is about them
        kids = [c for c in classes if c.get("base")]
        if kids and rng.random() < 0.7:
            target = rng.choice(kids)
        cid = target["id"]
        cls = fam.live.classes[cid]
        if roll < p_define + (1 - p_define) * 0.55:
            if rng.random() < 0.12:
                arg = {"np": 1}
            else:
                arg = {"v": gen.gen_value(rng, cls)}
            ops.append({"op": "use", "cid": cid, "arg": arg})
            continue
        # reconfigure the class with the C13 vocabulary
        wg2 = gen.WorldGen(rng, swarm)
        wg2.world = fam.inh
        op = c13.gen_reconfig_for(
            rng,
            wg2,
            fam.flat,
            [["class", cid]],
            "class",
            class_entry(fam.flat, cid),
            rng.random() < 0.5,
            allow_parent=True,
        )
        if op is None:
            continue
        if op.get("via") in ("update", "ior", "setdefault"):
            # a property put in through a dict method that bypasses binding has
            # no attribute name until the first validation binds it; its class
            # (and every class referring to it) prints differently before and
            # after - nothing to do with inheritance, so not generated here
            op["via"] = "setitem"
        try:
            trial = Family()
            for prev in ops:
                trial.apply(prev)
            trial.apply(op)
            build(trial.flat)
        except Exception:  # pylint: disable=broad-except
            continue
        fam.apply(op)
        op["probes"] = gen_probes(rng, fam.live.classes[cid], 2)
        fam.probes[cid] = fam.probes[cid] + list(op["probes"])
        ops.append(op)
    return {"prop": PROP, "perm": perm, "ops": ops, "swarm": swarm.describe()}


# --------------------------------------------------------------------------
# execution
# --------------------------------------------------------------------------


def _target_of(op):
    if op["op"] == "define":
        return op["entry"]["id"]
    if op["op"] == "use":
        return op["cid"]
    return op["path"][0][1]


def exec_case(case, log, stats):
    """The inheritance family (live) must refine the flat family (flatlive)
    under the *same* history of definitions, uses, probes and
    reconfigurations; and an op on a class must leave the serialisation of
    its ancestors untouched."""
    install_validator_order(case.get("perm"))
    fam = Family()
    child_touched_then_parent_checked = 0
    overrides = 0
    max_depth = 0
    for idx, op in enumerate(case["ops"]):
        # -- isolation, text part: ancestors right before / right after ------
        target = _target_of(op)
        if op["op"] == "define":
            watch = []
            base = op["entry"].get("base")
            while base:
                watch.append(base)
                base = class_entry(fam.inh, base).get("base")
        else:
            watch = fam.ancestors(target)
        pre = {cid: texts(fam.live.classes[cid]) for cid in watch}
        may_change = fam.apply(op)
        if op["op"] == "define":
            entry = op["entry"]
            stats.inc("define")
            depth = len(fam.ancestors(entry["id"]))
            max_depth = max(max_depth, depth)
            if entry.get("base"):
                stats.inc("define_child")
                base_eff = class_entry(fam.flat, entry["base"])
                for key in entry.get("kw", {}):
                    if key in base_eff["kw"]:
                        overrides += 1
                        stats.inc("kw_overridden:" + key)
                for key in base_eff["kw"]:
                    if key not in entry.get("kw", {}):
                        stats.inc("kw_inherited:" + key)
                for attr in entry.get("props", {}):
                    if attr in base_eff["props"]:
                        overrides += 1
                        stats.inc("prop_overridden")
                if "required" in base_eff["kw"] and "required" not in entry.get("kw", {}) and any(
                    p.get("required") for p in entry.get("props", {}).values()
                ):
                    stats.inc("hotspot_inherited_required_plus_required_prop")
            log.add(idx, "define", entry["id"], entry.get("base"))
        elif op["op"] == "use":
            val = NotPassed() if "np" in op["arg"] else copy.deepcopy(op["arg"]["v"])
            verdict, result, exc = attempt(fam.live.classes[op["cid"]], val)
            val2 = NotPassed() if "np" in op["arg"] else copy.deepcopy(op["arg"]["v"])
            attempt(fam.flatlive.classes[op["cid"]], val2)
            stats.inc("use")
            stats.inc("accepted" if verdict == "accept" else "rejected" if verdict == "reject" else verdict)
            if verdict == "reject":
                sites = stats.setdefault("abort_sites", {})
                site = abort_site(exc)
                sites[site] = sites.get(site, 0) + 1
            log.add(idx, "use", op["cid"], verdict, norm(result) if verdict == "accept" else None)
            if watch:
                child_touched_then_parent_checked += 1
        else:
            stats.inc("reconfig")
            stats.inc("reconfig:" + op["op"])
            if watch:
                child_touched_then_parent_checked += 1
                stats.inc("reconfig_child")
            if descendants(fam.inh, target):
                stats.inc("reconfig_parent(children tainted)")
            log.add(idx, op["op"], target, op.get("kw"), op.get("attr"))
        for cid in watch:
            if cid in may_change:
                continue  # e.g. the ancestor has a property typed by the target
            post = texts(fam.live.classes[cid])
            stats.inc("isolation_text_checks")
            for part in ("json", "python", "module"):
                if pre[cid][part] != post[part]:
                    return {
                        "invariant": "parent_not_isolated",
                        "op_index": idx,
                        "detail": {
                            "class": cid,
                            "part": part,
                            "op": op["op"],
                            "target": target,
                            "before": pre[cid][part],
                            "after": post[part],
                        },
                    }
        # -- refinement: live family == flat family, same history -----------
        for entry in fam.inh["classes"]:
            cid = entry["id"]
            if cid in fam.tainted:
                stats.inc("flat_checks_skipped_tainted")
                continue
            ancestors = [fam.live.classes[a] for a in fam.ancestors(cid)]
            obs = observe(fam.live.classes[cid], fam.probes[cid], ancestors)
            ref = observe(fam.flatlive.classes[cid], fam.probes[cid])
            stats.inc("flat_checks")
            log.add(idx, "obs", cid, obs["verdicts"])
            if obs["bad_instance"]:
                return {
                    "invariant": "not_instance_of_parent",
                    "op_index": idx,
                    "detail": {"class": cid, "ancestor": obs["bad_instance"]},
                }
            for part in ("verdicts", "json"):
                if ref[part] != obs[part]:
                    return {
                        "invariant": "differs_from_flat_class",
                        "op_index": idx,
                        "detail": {
                            "class": cid,
                            "is_ancestor_of_target": cid in watch,
                            "part": part,
                            "live": obs[part],
                            "flat": ref[part],
                        },
                    }
    stats["_nontrivial"] = int(
        max_depth >= 2 and overrides >= 1 and child_touched_then_parent_checked >= 1
    )
    if max_depth >= 3:
        stats.inc("chains_depth>=3")
    return None


def minimise(case, invariant, budget_s):
    """ddmin over ops (keeping definitions that later ops depend on), then
    JSON reduction of entries, probes and values."""
    import time

    from sim.driver import still_fails
    from sim.minimise import ddmin_list, reduce_json

    deadline = time.time() + budget_s
    case = copy.deepcopy(case)

    def consistent(ops):
        try:
            return _consistent(ops)
        except Exception:  # pylint: disable=broad-except
            return False

    def _consistent(ops):
        defined = set()
        for op in ops:
            if op["op"] == "define":
                base = op["entry"].get("base")
                if base and base not in defined:
                    return False
                defined.add(op["entry"]["id"])
            elif op["op"] == "use":
                if op["cid"] not in defined:
                    return False
            elif op["path"][0][1] not in defined:
                return False
        return True

    def test(ops):
        if not ops or not consistent(ops):
            return False
        cand = dict(case)
        cand["ops"] = ops
        return still_fails(PROP, cand, invariant)

    case["ops"] = ddmin_list(case["ops"], test, deadline)
    case = reduce_json(
        case, lambda cand: consistent(cand["ops"]) and still_fails(PROP, cand, invariant), deadline, REDUCE_ROOTS
    )
    return case


def fault_counts(stats):
    return {
        "reconfigurations": {
            k.split(":", 1)[1]: v for k, v in stats.items() if k.startswith("reconfig:")
        },
        "uses_rejected(aborts)": stats.get("rejected", 0),
        "abort_sites": stats.get("abort_sites", {}),
        "reconfig_of_child": stats.get("reconfig_child", 0),
        "validator_permutations": "one per run",
    }


def sample_of(case):
    ops = []
    for op in case["ops"][:6]:
        op = dict(op)
        if "probes" in op:
            op["probes"] = op["probes"][:2]
        ops.append(op)
    return {"ops": ops}


def signature(case, violation):
    return {"invariant": violation["invariant"]}
