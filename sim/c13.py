"""C13 - elements validate according to their *current* configuration (engine H).

The model M is the world spec (configuration as data).  Every reconfiguration
op is applied to the live objects by mutation (setattr / properties[...] /
del / properties setter) and to M as a data update; after every call the
outcome on the live, reconfigured objects must equal the outcome on a freshly
constructed build(M).

op = {"op": "call", "path": p, "arg": {"v": json} | {"np": 1}}
   | {"op": "set_kw", "path": p, "kw": name, "val": {"set": value} | {"unset": 1}}
   | {"op": "set_prop", "path": p, "attr": a, "prop": propspec}
   | {"op": "del_prop", "path": p, "attr": a}
   | {"op": "replace_props", "path": p, "props": {attr: propspec} | null}
"""
import copy

from statham.schema.constants import NotPassed

from sim import common, gen
from sim.common import gen_perm, install_validator_order
from sim.world import (
    CLASS_KW,
    ELEMENT_KW,
    KW_DEFAULTS,
    TYPED_KW,
    abort_site,
    attempt,
    build,
    class_entry,
    descendants,
    effective,
    live_resolve,
    norm,
    spec_nodes,
    spec_resolve,
)

PROP = "C13"
ENGINE = "H"
RULE = (
    "run i = world + op list from Random(f'{VERIF_SEED}:C13:{i}'): 2-9 reconfiguration steps (set_kw incl. unset, "
    "set_prop, del_prop, replace_props on elements and on model classes) interleaved with targeted calls (instances "
    "and near misses of the configuration before and after each step, NotPassed for defaults); after every call "
    "(verdict, normalised result) on the live mutated objects must equal that of build(M), a freshly constructed "
    "tree with the same configuration. Non-trivial run: >=2 reconfigurations each followed by >=1 call whose "
    "verdict differs from the verdict the same value had under the previous configuration; distinct = distinct "
    "event digests among those."
)
COMPONENTS = {
    "real": ["statham/* from /repo working tree"],
    "seam": ["validator order (seed-chosen permutation, fixed per run)"],
    "stub": ["model M: the world spec as data; reference = build(M) through the public constructors"],
}
ASSUMPTIONS = [
    "only classes without subclasses are reconfigured (the effect of reconfiguring a parent on existing children is not specified by C13/C15)",
    "only keywords accepted by the element's own constructor are assigned; `_Property` wrappers are always new",
    "the reference for a reconfigured class is a single class declared directly on Object with the effective configuration",
    "C13 compares validation outcomes only (verdict + result); serialisation differences are not violations",
    "sampling, not enumeration",
]
REDUCE_ROOTS = (("world",), ("ops",))

SETTABLE = {
    kind: tuple(k for k in kws if k != "properties")
    for kind, kws in TYPED_KW.items()
}
for _comp in ("AnyOf", "OneOf", "AllOf", "Not"):
    SETTABLE[_comp] = ("default",)
SETTABLE["Class"] = CLASS_KW


# --------------------------------------------------------------------------
# applying reconfiguration ops
# --------------------------------------------------------------------------


def flatten_class(world, cid):
    """Turn a class entry into effective form, declared directly on Object."""
    entry = class_entry(world, cid)
    if not entry.get("base") and not entry.get("post"):
        entry.setdefault("props", {})
        entry.setdefault("kw", {})
        return entry
    eff = effective(world, cid)
    entry["base"] = None
    entry["props"] = copy.deepcopy(eff["props"])
    entry["kw"] = copy.deepcopy(eff["kw"])
    entry.pop("post", None)
    return entry


def _inserted(op):
    pspec = copy.deepcopy(op["prop"])
    if op.get("via") in ("update", "ior", "setdefault"):
        pspec["_unbound"] = True
    return pspec


def _rename(props, attr, new):
    """The same Property object moved to another key: it keeps the source name
    it was bound to (explicit, or its first attribute name)."""
    if props[attr].get("_unbound"):
        # inserted through a dict method that bypasses binding: its source name
        # is only fixed at its first binding, which the model does not track
        raise ValueError("rename of a property that may never have been bound")
    pspec = props.pop(attr)
    pspec = dict(pspec)
    pspec["source"] = pspec.get("source") or attr
    props[new] = pspec


def apply_model(world, op):
    kind, node = spec_resolve(world, op["path"])
    if kind == "class":
        node = flatten_class(world, node["id"])
        kw = node["kw"]
        if op["op"] == "set_kw":
            if "unset" in op["val"]:
                kw.pop(op["kw"], None)
            else:
                kw[op["kw"]] = copy.deepcopy(op["val"]["set"])
        elif op["op"] == "set_prop":
            node["props"][op["attr"]] = _inserted(op)
        elif op["op"] == "del_prop":
            del node["props"][op["attr"]]
        elif op["op"] == "rename_prop":
            _rename(node["props"], op["attr"], op["new"])
        elif op["op"] == "replace_props":
            node["props"] = copy.deepcopy(op["props"] or {})
        return
    kw = node.setdefault("kw", {})
    if op["op"] == "set_kw":
        if "unset" in op["val"]:
            kw.pop(op["kw"], None)
        else:
            kw[op["kw"]] = copy.deepcopy(op["val"]["set"])
    elif op["op"] == "set_prop":
        kw["properties"][op["attr"]] = _inserted(op)
    elif op["op"] == "del_prop":
        del kw["properties"][op["attr"]]
    elif op["op"] == "rename_prop":
        _rename(kw["properties"], op["attr"], op["new"])
    elif op["op"] == "replace_props":
        if op["props"] is None:
            kw.pop("properties", None)
        else:
            kw["properties"] = copy.deepcopy(op["props"])


def apply_live(built, op):
    target = live_resolve(built, op["path"])
    if op["op"] == "set_kw":
        if "unset" in op["val"]:
            value = KW_DEFAULTS.get(op["kw"], NotPassed())
        else:
            value = built.kw_value(op["kw"], op["val"]["set"])
        setattr(target, op["kw"], value)
    elif op["op"] == "set_prop":
        # every ordinary way of putting a property into the container
        via = op.get("via", "setitem")
        prop = built.prop(op["prop"])
        if via == "update":
            target.properties.update({op["attr"]: prop})
        elif via == "ior":
            props = target.properties
            props |= {op["attr"]: prop}
        elif via == "setdefault" and op["attr"] not in target.properties:
            target.properties.setdefault(op["attr"], prop)
        else:
            target.properties[op["attr"]] = prop
    elif op["op"] == "rename_prop":
        props = target.properties
        props[op["new"]] = props.pop(op["attr"])
    elif op["op"] == "del_prop":
        if op.get("via") == "pop":
            target.properties.pop(op["attr"])
        else:
            del target.properties[op["attr"]]
    elif op["op"] == "replace_props":
        if op["props"] is None:
            target.properties = NotPassed()
        else:
            target.properties = {
                attr: built.prop(pspec) for attr, pspec in op["props"].items()
            }


# --------------------------------------------------------------------------
# generation
# --------------------------------------------------------------------------


def hoist(world):
    """Make element-valued configuration of classes that have subclasses
    named (`Ref`), so that flattening a subclass in the model keeps sharing
    the very same element objects with its parent, as the live clone does."""

    def name_it(spec):
        if not isinstance(spec, dict) or spec.get("k") in ("Ref", "Class", None):
            return spec
        sid = f"s{len(world['shared'])}"
        world["shared"][sid] = spec
        return {"k": "Ref", "id": sid}

    for entry in world["classes"]:
        if not descendants(world, entry["id"]):
            continue
        for pspec in entry.get("props", {}).values():
            pspec["el"] = name_it(pspec["el"])
        kw = entry.get("kw", {})
        for key, val in list(kw.items()):
            shape = ELEMENT_KW.get(key)
            if shape in ("one", "bool_or_one") and isinstance(val, dict):
                kw[key] = name_it(val)
            elif shape in ("dict", "dict_list_or_one"):
                kw[key] = {
                    k: (name_it(v) if isinstance(v, dict) else v)
                    for k, v in val.items()
                }
    return world


def gen_kw_value(rng, wg, kw):
    """A fresh value for keyword `kw` (JSON literal or spec-shaped)."""
    if kw in ("minLength", "minItems", "minProperties"):
        return rng.choice([0, 1, 2, 3])
    if kw in ("maxLength", "maxItems", "maxProperties"):
        return rng.choice([0, 1, 2, 3, 4, 6])
    if kw == "pattern":
        return rng.choice(gen.PATTERNS)[0]
    if kw == "format":
        return rng.choice(gen.FORMATS)
    if kw in ("minimum", "maximum", "exclusiveMinimum", "exclusiveMaximum"):
        return rng.choice(gen.INTS + gen.FLOATS)
    if kw == "multipleOf":
        return rng.choice([1, 2, 3, 5, 0.5, 2.0])
    if kw == "uniqueItems":
        return rng.choice([True, False])
    if kw == "const":
        return wg.literal()
    if kw == "enum":
        return [wg.literal() for _ in range(rng.randint(1, 4))]
    if kw == "default":
        return wg.literal()
    if kw == "required":
        return [rng.choice(gen.PROP_NAMES) for _ in range(rng.randint(1, 2))]
    if kw == "description":
        return rng.choice(["d", "another description"])
    if kw == "items":
        if rng.random() < 0.35:
            return [wg.element(2) for _ in range(rng.randint(1, 3))]
        return wg.element(2)
    if kw in ("additionalItems", "additionalProperties"):
        if rng.random() < 0.6:
            return rng.choice([True, False])
        return wg.element(2)
    if kw == "contains":
        return wg.element(2)
    if kw == "propertyNames":
        return {"k": "String", "kw": {"maxLength": rng.choice([1, 2, 3, 5])}}
    if kw == "patternProperties":
        return {
            rng.choice(gen.PATTERNS)[0]: wg.element(2)
            for _ in range(rng.randint(1, 2))
        }
    if kw == "dependencies":
        out = {}
        for _ in range(rng.randint(1, 2)):
            key = rng.choice(gen.PROP_NAMES)
            if rng.random() < 0.5:
                out[key] = [rng.choice(gen.PROP_NAMES)]
            else:
                out[key] = wg.element(2)
        return out
    raise ValueError(kw)


def _props_of(world, kind, node):
    if kind == "class":
        return effective(world, node["id"])["props"]
    return node.get("kw", {}).get("properties")


def _relevant_kw(rng, kname, cur, settable):
    """Bias keyword choice towards groups the node already uses, so that the
    values aimed at the node are affected by the change."""
    groups = [
        ("minLength", "maxLength", "pattern", "format"),
        ("minimum", "maximum", "exclusiveMinimum", "exclusiveMaximum", "multipleOf"),
        ("items", "additionalItems", "minItems", "maxItems", "uniqueItems", "contains"),
        ("required", "patternProperties", "additionalProperties", "minProperties",
         "maxProperties", "propertyNames", "dependencies"),
        ("default", "const", "enum"),
    ]
    if kname == "Element" and rng.random() < 0.7:
        used = [g for g in groups if any(k in cur for k in g)]
        if cur.get("properties"):
            used.append(groups[3])
        if used:
            pool = [k for k in rng.choice(used) if k in settable]
            if pool:
                return rng.choice(pool)
    return rng.choice(settable)


def _alias(value):
    """The bool/int look-alike of a literal (1 <-> True, 0 <-> False), also
    inside lists: equal for Python, different for JSON Schema."""
    if value is True:
        return 1
    if value is False:
        return 0
    if isinstance(value, int) and value in (0, 1):
        return bool(value)
    if isinstance(value, float) and value in (0.0, 1.0):
        return bool(value)
    if isinstance(value, list):
        return [_alias(v) for v in value]
    return value


def _alias_variant(spec):
    """A copy of an element spec whose const/enum literals are replaced by
    their bool/int look-alikes; None if that changes nothing."""
    if not isinstance(spec, dict) or "kw" not in spec:
        return None
    out = copy.deepcopy(spec)
    changed = False
    for key in ("const", "enum"):
        if key in out["kw"]:
            new = _alias(out["kw"][key])
            if new != out["kw"][key] or repr(new) != repr(out["kw"][key]):
                changed = changed or repr(new) != repr(out["kw"][key])
                out["kw"][key] = new
    return out if changed else None


def gen_reconfig_for(rng, wg, model, path, kind, node, want_props, allow_parent=False):
    """A reconfiguration op for one specific node, or None."""
    if kind == "class":
        if not allow_parent and descendants(model, node["id"]):
            return None
        kname = "Class"
    else:
        kname = node["k"]
        if kname == "Nothing":
            return None
    props = _props_of(model, kind, node)
    can_props = kname in ("Class", "Element")
    if want_props:
        if not can_props:
            return None
        sub = rng.random()
        if props and sub < 0.08:
            fresh_names = [n for n in gen.PROP_NAMES if n not in props]
            bound = [a for a, p in props.items() if not p.get("_unbound")]
            if fresh_names and bound:
                return {
                    "op": "rename_prop",
                    "path": path,
                    "attr": rng.choice(bound),
                    "new": rng.choice(fresh_names),
                }
        if props and sub < 0.3:
            attr = rng.choice(list(props))
            return {"op": "del_prop", "path": path, "attr": attr, "via": rng.choice(["del", "del", "pop"])}
        if props is not None and sub < 0.8:
            if props and rng.random() < 0.5:
                attr = rng.choice(list(props))  # replace
            else:
                attr = rng.choice(gen.PROP_NAMES)
            pspec = {
                "el": wg.element(2),
                "required": rng.random() < 0.5,
                "source": None,
            }
            if attr in props and rng.random() < 0.3:
                # replace a declaration by its bool/int look-alike (equal for
                # Python's ==, a different schema)
                variant = _alias_variant(props[attr].get("el"))
                if variant is not None:
                    pspec = dict(copy.deepcopy(props[attr]), el=variant)
                    pspec.pop("_unbound", None)
            return {
                "op": "set_prop",
                "path": path,
                "attr": attr,
                "prop": pspec,
                "via": rng.choice(["setitem", "setitem", "update", "ior", "setdefault"]),
            }
        if kname == "Element" and props is not None and rng.random() < 0.2:
            return {"op": "replace_props", "path": path, "props": None}
        new = wg.props(2, 0)
        return {"op": "replace_props", "path": path, "props": new}
    settable = SETTABLE.get(kname, ())
    if not settable:
        return None
    if kind == "class":
        cur = effective(model, node["id"])["kw"]
    else:
        cur = node.get("kw", {})
    set_now = [k for k in cur if k in settable and k != "properties"]
    if set_now and rng.random() < 0.45:
        kw = rng.choice(set_now)
        if rng.random() < 0.5 and not (kname == "Array" and kw == "items"):
            return {"op": "set_kw", "path": path, "kw": kw, "val": {"unset": 1}}
    else:
        kw = _relevant_kw(rng, kname, cur, settable)
    value = gen_kw_value(rng, wg, kw)
    if kw in ("const", "enum") and kw in cur and rng.random() < 0.3:
        alias = _alias(cur[kw])
        if repr(alias) != repr(cur[kw]):
            value = alias
    return {
        "op": "set_kw",
        "path": path,
        "kw": kw,
        "val": {"set": value},
    }


def gen_reconfig(rng, wg, model):
    """Pick a node and a reconfiguration that is legal on it."""
    nodes = spec_nodes(model)
    rng.shuffle(nodes)
    want_props = rng.random() < 0.45
    for attempt_no in (0, 1):
        for path, kind, node in nodes:
            op = gen_reconfig_for(
                rng, wg, model, path, kind, node, want_props and attempt_no == 0
            )
            if op is not None:
                return op
    return None


def gen_case(rng, force=(), forbid=()):
    perm = gen_perm(rng)
    force = tuple(force) or tuple(
        rng.sample(["Class", "untyped_props", "Array", "explicit_required", "defaults"], 2)
    )
    world, swarm = gen.gen_world(rng, force, forbid)
    hoist(world)
    install_validator_order(perm)
    model = copy.deepcopy(world)
    scratch = build(model)
    wg = gen.WorldGen(rng, swarm)
    wg.world = model
    ops = []
    n_steps = rng.choice([2, 3, 4, 5, 7, 9])
    p_np = rng.choice([0.0, 0.1, 0.2])
    p_feed = rng.choice([0.0, 0.1, 0.25])

    def add_calls(paths, nodes_before, count):
        for _ in range(count):
            path = rng.choice(paths)
            try:
                node = live_resolve(scratch, path)
            except Exception:  # pylint: disable=broad-except
                continue
            if rng.random() < p_np:
                ops.append({"op": "call", "path": path, "arg": {"np": 1}})
                continue
            if rng.random() < p_feed:
                # pass back the very object an earlier call on this path returned
                prior = [
                    i
                    for i, o in enumerate(ops)
                    if o["op"] == "call" and o["path"] == path and "v" in o["arg"]
                ]
                if prior:
                    ops.append({"op": "call", "path": path, "arg": {"res": rng.choice(prior)}})
                    continue
            roll = rng.random()
            before = nodes_before.get(str(path))
            if before is not None and roll < 0.35:
                val = before  # instance generated under the previous configuration
            elif roll < 0.7:
                val = gen.instance(rng, node)
            else:
                val = gen.gen_value(rng, node)
            ops.append({"op": "call", "path": path, "arg": {"v": val}})

    all_paths = [p for p, _, _ in spec_nodes(model)]
    add_calls([[]] + all_paths[:3], {}, rng.randint(0, 2))
    for _ in range(n_steps):
        op = gen_reconfig(rng, wg, model)
        if op is None:
            break
        # values of the configuration *before* the step, for the touched node
        # and for the root
        targets = [op["path"], []]
        if len(op["path"]) > 1:
            targets.append(op["path"][:-1])
        before = {}
        for path in targets:
            try:
                before[str(path)] = gen.instance(rng, live_resolve(scratch, path))
            except Exception:  # pylint: disable=broad-except
                pass
        try:
            trial = copy.deepcopy(model)
            apply_model(trial, op)
            build(trial)  # the new configuration must be constructible
            apply_model(model, op)
            apply_live(scratch, op)
        except Exception:  # pylint: disable=broad-except
            # illegal configuration (e.g. reserved name); rebuild scratch and skip
            scratch = build(model)
            continue
        ops.append(op)
        add_calls(targets, before, rng.choice([0, 1, 1, 2, 3, 4]))
    return {
        "prop": PROP,
        "world": world,
        "perm": perm,
        "ops": ops,
        "swarm": swarm.describe(),
        "pristine": rng.random() < 0.3,
    }


def reference_call(model, path, arg, perm):
    """Outcome of one call on a tree freshly constructed from `model`, in a
    process that has never validated anything (executed via common.pristine)."""
    install_validator_order(perm)
    fresh = build(model)
    verdict, result, _ = attempt(live_resolve(fresh, path), _value(arg))
    return verdict, norm(result) if verdict == "accept" else None


# --------------------------------------------------------------------------
# execution
# --------------------------------------------------------------------------


def _value(arg):
    if "np" in arg:
        return NotPassed()
    return copy.deepcopy(arg["v"])


def _has_model_instance(value, depth=0):
    from statham.schema.elements import Object

    if isinstance(value, Object):
        return True
    if depth > 30:
        return False
    if isinstance(value, dict):
        return any(_has_model_instance(v, depth + 1) for v in value.values())
    if isinstance(value, (list, tuple)):
        return any(_has_model_instance(v, depth + 1) for v in value)
    return False


def exec_case(case, log, stats):
    install_validator_order(case.get("perm"))
    model = copy.deepcopy(case["world"])
    live = build(model)
    prev_model = None
    results = {}
    flips_after = []  # per reconfiguration: did a later call flip its verdict?
    for idx, op in enumerate(case["ops"]):
        if op["op"] != "call":
            prev_model = copy.deepcopy(model)
            apply_model(model, op)
            apply_live(live, op)
            flips_after.append(False)
            log.add(idx, op["op"], op["path"], op.get("kw"), op.get("attr"))
            stats.inc("reconfig")
            stats.inc("reconfig:" + op["op"])
            if op["op"] == "set_kw" and "unset" in op["val"]:
                stats.inc("reconfig:unset_kw")
            if op.get("via") not in (None, "setitem", "del"):
                stats.inc("reconfig:via_" + op["via"])
            if op["path"] and op["path"][0][0] == "class" and len(op["path"]) == 1:
                stats.inc("reconfig:on_class")
            continue
        target = live_resolve(live, op["path"])
        fed = None
        is_fed = "res" in op["arg"]
        if is_fed:
            # the object a previous call returned, passed back as data.  Model
            # instances are excluded: a fresh class cannot recognise instances
            # of the live class, so there would be nothing to compare with.
            prior = results.get(op["arg"]["res"])
            if prior is None or prior[0] != "accept" or _has_model_instance(prior[1]) or isinstance(prior[1], NotPassed):
                log.add(idx, "feed_skipped")
                stats.inc("feed_skipped")
                continue
            fed = prior[1]
            stats.inc("fed_back_results")
            verdict, result, exc = attempt(target, fed)
        else:
            verdict, result, exc = attempt(target, _value(op["arg"]))
        results[idx] = (verdict, result)
        nres = norm(result) if verdict == "accept" else None
        log.add(idx, "call", op["path"], verdict, nres)
        stats.inc("calls")
        stats.inc("accepted" if verdict == "accept" else "rejected" if verdict == "reject" else verdict)
        if verdict == "reject":
            sites = stats.setdefault("abort_sites", {})
            site = abort_site(exc)
            sites[site] = sites.get(site, 0) + 1
        if "np" in op["arg"]:
            stats.inc("notpassed_calls")
        fresh = build(model)
        fverdict, fresult, _ = attempt(
            live_resolve(fresh, op["path"]), fed if is_fed else _value(op["arg"])
        )
        fnres = norm(fresult) if fverdict == "accept" else None
        if (verdict, nres) != (fverdict, fnres):
            return {
                "invariant": "stale_configuration",
                "op_index": idx,
                "detail": {"live": [verdict, nres], "fresh": [fverdict, fnres]},
            }
        if case.get("pristine") and not is_fed:
            # the same call on a fresh tree in a process that has never
            # validated anything: catches state kept outside the tree
            pverdict, pnres = common.pristine(
                "sim.c13", "reference_call", model, op["path"], op["arg"], case.get("perm")
            )
            stats.inc("pristine_process_references")
            if (verdict, nres) != (pverdict, pnres):
                return {
                    "invariant": "history_dependent_verdict",
                    "op_index": idx,
                    "detail": {
                        "live": [verdict, nres],
                        "pristine_process": [pverdict, pnres],
                        "same_process_fresh_tree": [fverdict, fnres],
                    },
                }
        if prev_model is not None and flips_after and not flips_after[-1] and not is_fed:
            try:
                old = build(prev_model)
                overdict, oresult, _ = attempt(
                    live_resolve(old, op["path"]), _value(op["arg"])
                )
                onres = norm(oresult) if overdict == "accept" else None
                if overdict != verdict:
                    flips_after[-1] = True
                    stats.inc("verdict_flips")
                elif onres != nres:
                    stats.inc("result_changes")
            except Exception:  # pylint: disable=broad-except
                pass
    stats["_nontrivial"] = int(sum(flips_after) >= 2)
    return None


def valid_case(case):
    return True


def fault_counts(stats):
    return {
        "reconfigurations": {
            k.split(":", 1)[1]: v for k, v in stats.items() if k.startswith("reconfig:")
        },
        "rejected_calls(aborts)": stats.get("rejected", 0),
        "abort_sites": stats.get("abort_sites", {}),
        "verdict_flips_after_reconfig": stats.get("verdict_flips", 0),
        "validator_permutations": "one per run",
    }


def sample_of(case):
    return {"world": case["world"], "ops": case["ops"][:8]}


def signature(case, violation):
    return {"invariant": violation["invariant"]}
