"""Delta debugging over explicit cases (op lists, JSON worlds, values)."""
import copy
import time


def ddmin_list(items, test, deadline):
    """Classic ddmin: smallest sub-list (by chunk removal) for which test holds."""
    n = 2
    items = list(items)
    while len(items) >= 2 and time.time() < deadline:
        chunk = max(1, len(items) // n)
        reduced = False
        start = 0
        while start < len(items) and time.time() < deadline:
            cand = items[:start] + items[start + chunk :]
            if cand and test(cand):
                items = cand
                n = max(n - 1, 2)
                reduced = True
            else:
                start += chunk
        if not reduced:
            if chunk == 1:
                break
            n = min(len(items), n * 2)
    if len(items) == 1 and time.time() < deadline and test([]):
        return []
    return items


def _walk(doc, path=()):
    """Yield (path, container) for every list/dict in doc, parents first."""
    if isinstance(doc, dict):
        yield path, doc
        for key in list(doc):
            yield from _walk(doc[key], path + (key,))
    elif isinstance(doc, list):
        yield path, doc
        for idx in range(len(doc)):
            yield from _walk(doc[idx], path + (idx,))


def _get(doc, path):
    for step in path:
        doc = doc[step]
    return doc


def _set(doc, path, value):
    parent = _get(doc, path[:-1])
    parent[path[-1]] = value


_SIMPLE_SPEC = {"k": "Element", "kw": {}}
_PROTECTED_KEYS = {"k", "op", "prop", "id", "name"}


def reduce_json(doc, test, deadline, roots=()):
    """Greedy structural reduction of the JSON sub-documents at `roots`.

    Tries, until a fixpoint or the deadline: delete dict keys / list items,
    replace element specs by `Element()`, replace scalars by simpler ones.
    `test(candidate_doc)` must return True when the candidate still fails in
    the same way (and False on any error).
    """
    changed = True
    while changed and time.time() < deadline:
        changed = False
        for root in roots:
            try:
                sub = _get(doc, root)
            except (KeyError, IndexError, TypeError):
                continue
            paths = [tuple(root) + p for p, _ in _walk(sub)]
            # deepest first keeps earlier paths valid after deletions
            for path in sorted(paths, key=len, reverse=True):
                if time.time() > deadline:
                    return doc
                try:
                    node = _get(doc, path)
                except (KeyError, IndexError, TypeError):
                    continue
                # replace a spec by the trivial element
                if (
                    isinstance(node, dict)
                    and node.get("k") not in (None, "Ref", "Class")
                    and node != _SIMPLE_SPEC
                    and len(path) > len(root)
                ):
                    cand = copy.deepcopy(doc)
                    _set(cand, path, copy.deepcopy(_SIMPLE_SPEC))
                    if test(cand):
                        doc = cand
                        changed = True
                        continue
                if isinstance(node, dict):
                    for key in list(node):
                        if key in _PROTECTED_KEYS:
                            continue
                        cand = copy.deepcopy(doc)
                        del _get(cand, path)[key]
                        if test(cand):
                            doc = cand
                            node = _get(doc, path)
                            changed = True
                elif isinstance(node, list):
                    idx = len(node) - 1
                    while idx >= 0:
                        cand = copy.deepcopy(doc)
                        del _get(cand, path)[idx]
                        if test(cand):
                            doc = cand
                            node = _get(doc, path)
                            changed = True
                        idx -= 1
            # scalars
            for path, container in list(_walk(_get(doc, root))):
                full = tuple(root) + path
                keys = (
                    list(container)
                    if isinstance(container, dict)
                    else range(len(container))
                )
                for key in keys:
                    if time.time() > deadline:
                        return doc
                    if key in _PROTECTED_KEYS:
                        continue
                    try:
                        val = _get(doc, full + (key,))
                    except (KeyError, IndexError, TypeError):
                        continue
                    simpler = []
                    if isinstance(val, bool):
                        pass
                    elif isinstance(val, str) and len(val) > 1:
                        simpler = [val[:1]]
                    elif isinstance(val, int) and val not in (0, 1):
                        simpler = [0, 1]
                    elif isinstance(val, float) and val not in (0.0, 1.0):
                        simpler = [1.0]
                    for simple in simpler:
                        cand = copy.deepcopy(doc)
                        _set(cand, full + (key,), simple)
                        if test(cand):
                            doc = cand
                            changed = True
                            break
    return doc


def remap_ops(ops, keep):
    """Keep ops at indices `keep`; fix `j`/`res` references; drop dependants
    of deleted ops.  -> new list."""
    keep = sorted(keep)
    while True:
        mapping = {old: new for new, old in enumerate(keep)}
        bad = []
        for old in keep:
            op = ops[old]
            ref = None
            if op.get("op") == "repeat":
                ref = op["j"]
            elif isinstance(op.get("arg"), dict) and "res" in op["arg"]:
                ref = op["arg"]["res"]
            if ref is not None and ref not in mapping:
                bad.append(old)
        if not bad:
            break
        keep = [k for k in keep if k not in bad]
    out = []
    for old in keep:
        op = copy.deepcopy(ops[old])
        if op.get("op") == "repeat":
            op["j"] = mapping[op["j"]]
        elif isinstance(op.get("arg"), dict) and "res" in op["arg"]:
            op["arg"]["res"] = mapping[op["arg"]["res"]]
        out.append(op)
    return out
