"""Seed-driven, swarm-style generation of worlds and values.

Every function takes the run's `random.Random`; nothing here iterates a set
or reads global state, so a world is a pure function of the PRNG stream.
"""
import copy

from statham.schema.constants import NotPassed
from statham.schema.elements import (
    AllOf,
    AnyOf,
    Array,
    Boolean,
    CompositionElement,
    Element,
    Integer,
    Not,
    Nothing,
    Null,
    Number,
    OneOf,
    String,
)
from statham.schema.elements.meta import ObjectMeta

from sim.world import TYPED_KW

STRS = ["", "a", "ab", "abc", "abcd", "x_1", "a_id", "k1", "Zz", "été", "x", "abcdef"]
INTS = [-3, -1, 0, 1, 2, 3, 4, 5, 6, 8, 10, 12]
FLOATS = [0.5, 1.0, 2.5, -1.5, 3.0, 4.0, 0.0]
# rarely: numbers at the edges of the float/int/bool zoo
# (no NaN: whether two NaNs are "the same item" depends on object identity,
# which differs between a value built in-process and one that travelled through
# pickle to a reference process - a transport artefact, not library behaviour)
EDGE_NUMBERS = [-0.0, 1e308, -1e308, 5e-324, 2 ** 53 + 1, -(2 ** 63), 10 ** 40]
PATTERNS = [
    ("^x", ["x", "x_1", "xk"]),
    ("_id$", ["a_id", "x_id"]),
    ("^[a-z]+$", ["abc", "a", "ab"]),
    ("\\d", ["k1", "9", "x_1"]),
    ("^ab", ["ab", "abc", "abcd"]),
]
PROP_NAMES = ["a", "b", "c", "d", "x_1", "a_id", "k1", "value"]
# (attribute, source) pairs with a rename
RENAMED = [("class_", "class"), ("x1", "x-1"), ("in_", "in"), ("b2", "b 2")]
FORMATS = ["uuid", "date-time", "sim-unregistered"]
UUIDS = [
    "123e4567-e89b-12d3-a456-426614174000",
    "00000000-0000-0000-0000-000000000000",
]
DATETIMES = [
    "2020-01-02T03:04:05Z",
    "1999-12-31T23:59:59+01:00",
    # not RFC 3339, but what dateutil-style checkers are fed in practice
    "2020-03-02 10:00 PDT",
    "Mon, 02 Mar 2020 10:00:00 XYZT",
    "10:00 2020-03-02",
]
CLASS_NAMES = [
    "Alpha",
    "Beta",
    "Gamma",
    "Delta",
    "Eps",
    "Zeta",
    "Eta",
    "Theta",
    "Iota",
    "Kappa",
]

SCALAR_KINDS = ["String", "Integer", "Number", "Boolean", "Null"]


class Swarm:
    """Per-run configuration: which features are on and how heavy."""

    FEATURES = (
        "String",
        "Integer",
        "Number",
        "Boolean",
        "Null",
        "Array",
        "tuple_items",
        "Element",
        "untyped_props",
        "Class",
        "inherit",
        "AnyOf",
        "OneOf",
        "AllOf",
        "Not",
        "Nothing",
        "shared",
        "defaults",
        "bad_defaults",
        "const_enum",
        "pattern_props",
        "additional",
        "prop_names",
        "dependencies",
        "explicit_required",
        "renames",
        "formats",
        "minmax_props",
    )

    def __init__(self, rng, force=(), forbid=()):
        self.on = {}
        density = rng.choice([0.35, 0.5, 0.7, 0.9])
        for feat in self.FEATURES:
            self.on[feat] = rng.random() < density
        for feat in force:
            self.on[feat] = True
        for feat in forbid:
            self.on[feat] = False
        if not any(self.on[k] for k in SCALAR_KINDS):
            self.on[rng.choice(SCALAR_KINDS)] = True
        self.max_depth = rng.choice([1, 2, 2, 3, 3])
        self.max_props = rng.choice([1, 2, 3, 4, 6])
        self.kw_p = rng.choice([0.15, 0.3, 0.5])
        self.n_classes = rng.choice([0, 1, 2, 3, 4]) if self.on["Class"] else 0
        self.n_shared = rng.choice([0, 1, 2, 3]) if self.on["shared"] else 0
        self.fmt_p = 0.15
        self.tuple_p = 0.35

    def describe(self):
        return {
            "on": [k for k, v in self.on.items() if v],
            "max_depth": self.max_depth,
            "max_props": self.max_props,
            "kw_p": self.kw_p,
        }


class WorldGen:
    def __init__(self, rng, swarm):
        self.rng = rng
        self.sw = swarm
        self.world = {"shared": {}, "classes": [], "root": None}
        self.counter = 0

    # -- literals --------------------------------------------------------
    def literal(self, depth=0):
        rng = self.rng
        roll = rng.random()
        if roll < 0.25:
            return rng.choice(STRS)
        if roll < 0.5:
            return rng.choice(INTS)
        if roll < 0.6:
            return rng.choice(FLOATS)
        if roll < 0.7:
            return rng.choice([True, False])
        if roll < 0.75:
            return None
        if depth >= 2:
            return rng.choice(INTS)
        if roll < 0.88:
            return [self.literal(depth + 1) for _ in range(rng.randint(0, 3))]
        return {
            rng.choice(PROP_NAMES): self.literal(depth + 1)
            for _ in range(rng.randint(0, 3))
        }

    def maybe(self, p=None):
        return self.rng.random() < (self.sw.kw_p if p is None else p)

    # -- keyword groups --------------------------------------------------
    def common_kw(self, kw, kind):
        rng = self.rng
        if self.sw.on["const_enum"] and self.maybe(0.15):
            pick = lambda: (
                rng.choice([0, 1, True, False, 1.0, 0.0])
                if rng.random() < 0.2
                else self.literal_for(kind)
            )
            if rng.random() < 0.5:
                kw["const"] = pick()
            else:
                kw["enum"] = [pick() for _ in range(rng.randint(1, 4))]
        if self.sw.on["defaults"] and self.maybe(0.25):
            if rng.random() < 0.1:
                kw["default"] = None  # JSON null is a value, not "no default"
            elif self.sw.on["bad_defaults"] and rng.random() < 0.3:
                kw["default"] = self.literal()
            else:
                kw["default"] = self.literal_for(kind)

    def literal_for(self, kind):
        rng = self.rng
        if kind == "String":
            return rng.choice(STRS)
        if kind == "Integer":
            return rng.choice(INTS)
        if kind == "Number":
            return rng.choice(FLOATS + INTS)
        if kind == "Boolean":
            return rng.choice([True, False])
        if kind == "Null":
            return None
        if kind == "Array":
            return [self.literal(1) for _ in range(rng.randint(0, 3))]
        if kind == "Object":
            return {
                rng.choice(PROP_NAMES): self.literal(1)
                for _ in range(rng.randint(0, 3))
            }
        return self.literal()

    def string_kw(self, kw):
        rng = self.rng
        if self.maybe():
            kw["minLength"] = rng.choice([0, 1, 2, 3])
        if self.maybe():
            kw["maxLength"] = rng.choice([1, 2, 3, 4, 6])
        if self.maybe(0.2):
            kw["pattern"] = rng.choice(PATTERNS)[0]
        if self.sw.on["formats"] and self.maybe(self.sw.fmt_p):
            kw["format"] = rng.choice(FORMATS)

    def numeric_kw(self, kw, integer):
        rng = self.rng
        pool = INTS if integer or rng.random() < 0.5 else FLOATS
        if self.maybe():
            kw["minimum"] = rng.choice(pool)
        if self.maybe():
            kw["maximum"] = rng.choice(pool)
        if self.maybe(0.15):
            kw["exclusiveMinimum"] = rng.choice(pool)
        if self.maybe(0.15):
            kw["exclusiveMaximum"] = rng.choice(pool)
        if self.maybe(0.2):
            kw["multipleOf"] = rng.choice([1, 2, 3, 5, 0.5, 2.0, 2.5])

    def array_kw(self, kw, depth):
        rng = self.rng
        if self.sw.on["tuple_items"] and rng.random() < self.sw.tuple_p:
            kw["items"] = [
                self.element(depth + 1) for _ in range(rng.randint(1, 3))
            ]
            if self.sw.on["additional"] and self.maybe(0.5):
                kw["additionalItems"] = (
                    rng.choice([True, False])
                    if rng.random() < 0.5
                    else self.element(depth + 1)
                )
        else:
            kw["items"] = self.element(depth + 1)
        if self.maybe():
            kw["minItems"] = rng.choice([0, 1, 2])
        if self.maybe():
            kw["maxItems"] = rng.choice([1, 2, 3, 4])
        if self.maybe(0.25):
            kw["uniqueItems"] = rng.choice([True, True, False])
        if self.maybe(0.2):
            kw["contains"] = self.element(depth + 1)

    def props(self, depth, min_props=0):
        rng = self.rng
        n = rng.randint(min_props, max(min_props, self.sw.max_props))
        out = {}
        names = list(PROP_NAMES)
        rng.shuffle(names)
        for _ in range(n):
            if self.sw.on["renames"] and rng.random() < 0.2:
                attr, source = rng.choice(RENAMED)
            else:
                attr, source = names.pop(), None
                if rng.random() < 0.1:
                    source = attr  # explicit but equal source
            if attr in out:
                continue
            out[attr] = {
                "el": self.element(depth + 1),
                "required": rng.random() < 0.4,
                "source": source,
            }
        return out

    def sources_of(self, props):
        return [p.get("source") or attr for attr, p in props.items()]

    def object_kw(self, kw, depth, props):
        """Object-ish keywords shared by untyped elements and classes."""
        rng = self.rng
        srcs = self.sources_of(props) or PROP_NAMES[:3]
        if self.sw.on["explicit_required"] and self.maybe(0.35):
            pool = srcs + PROP_NAMES[:4]
            kw["required"] = [
                rng.choice(pool) for _ in range(rng.randint(1, 2))
            ]
        if self.sw.on["pattern_props"] and self.maybe(0.3):
            kw["patternProperties"] = {
                rng.choice(PATTERNS)[0]: self.element(depth + 1)
                for _ in range(rng.randint(1, 2))
            }
        if self.sw.on["additional"] and self.maybe(0.4):
            kw["additionalProperties"] = (
                rng.choice([False, False, True])
                if rng.random() < 0.6
                else self.element(depth + 1)
            )
        if self.sw.on["minmax_props"] and self.maybe(0.2):
            kw["minProperties"] = rng.choice([0, 1, 2])
        if self.sw.on["minmax_props"] and self.maybe(0.2):
            kw["maxProperties"] = rng.choice([1, 2, 3, 5])
        if self.sw.on["prop_names"] and self.maybe(0.2):
            kw["propertyNames"] = {
                "k": "String",
                "kw": rng.choice(
                    [
                        {"maxLength": rng.choice([2, 3, 5])},
                        {"pattern": rng.choice(PATTERNS)[0]},
                        {"minLength": 1},
                    ]
                ),
            }
        if self.sw.on["dependencies"] and self.maybe(0.25):
            deps = {}
            for _ in range(rng.randint(1, 2)):
                key = rng.choice(srcs)
                if rng.random() < 0.5:
                    pool = srcs + PROP_NAMES[:3]
                    deps[key] = [rng.choice(pool) for _ in range(rng.choice([1, 2, 2, 3]))]
                else:
                    deps[key] = self.element(depth + 1)
            kw["dependencies"] = deps

    # -- elements --------------------------------------------------------
    def kinds(self, depth):
        sw = self.sw
        out = [k for k in SCALAR_KINDS if sw.on[k]] * 2
        if depth < sw.max_depth:
            if sw.on["Array"]:
                out += ["Array"] * 2
            if sw.on["Element"]:
                out += ["Element"]
            if sw.on["untyped_props"]:
                out += ["ElementObj"] * 2
            for comp in ("AnyOf", "OneOf", "AllOf"):
                if sw.on[comp]:
                    out.append(comp)
            if sw.on["Not"]:
                out.append("Not")
        if sw.on["Nothing"] and self.rng.random() < 0.3:
            out.append("Nothing")
        if self.world["classes"]:
            out += ["Class"] * 3
        if self.world["shared"]:
            out += ["Ref"] * 2
        return out

    def element(self, depth=0):
        rng = self.rng
        kind = rng.choice(self.kinds(depth))
        if kind == "Class":
            return {"k": "Class", "id": rng.choice(self.world["classes"])["id"]}
        if kind == "Ref":
            return {"k": "Ref", "id": rng.choice(list(self.world["shared"]))}
        if kind == "Nothing":
            return {"k": "Nothing"}
        if kind in ("AnyOf", "OneOf", "AllOf"):
            spec = {
                "k": kind,
                "els": [
                    self.element(depth + 1) for _ in range(rng.randint(1, 3))
                ],
                "kw": {},
            }
            if self.sw.on["Not"] and rng.random() < 0.25:
                # a branch that hands the value through untouched (`not`)
                # next to branches that build an object from it: an all-object
                # composition that dict values can actually pass
                not_branch = {"k": "Not", "el": {"k": rng.choice(SCALAR_KINDS), "kw": {}}, "kw": {}}
                builders = [
                    {"k": "Element", "kw": {"properties": self.props(depth + 1, 1)}}
                    for _ in range(rng.randint(1, 2))
                ]
                if rng.random() < 0.5:
                    spec["els"] = [not_branch] + builders
                else:
                    spec["els"] = builders + [not_branch]
            if self.sw.on["defaults"] and self.maybe(0.15):
                spec["kw"]["default"] = self.literal()
            return spec
        if kind == "Not":
            spec = {"k": "Not", "el": self.element(depth + 1), "kw": {}}
            if self.sw.on["defaults"] and self.maybe(0.15):
                spec["kw"]["default"] = self.literal()
            return spec
        kw = {}
        if kind == "String":
            self.string_kw(kw)
            self.common_kw(kw, kind)
        elif kind in ("Integer", "Number"):
            self.numeric_kw(kw, kind == "Integer")
            self.common_kw(kw, kind)
        elif kind in ("Boolean", "Null"):
            self.common_kw(kw, kind)
        elif kind == "Array":
            self.array_kw(kw, depth)
            self.common_kw(kw, kind)
        elif kind == "Element":
            # untyped: a mix of keyword groups
            groups = rng.sample(["s", "n", "a", "o"], rng.randint(0, 2))
            if "s" in groups:
                self.string_kw(kw)
            if "n" in groups:
                self.numeric_kw(kw, rng.random() < 0.5)
            if "a" in groups:
                self.array_kw(kw, depth)
            if "o" in groups:
                self.object_kw(kw, depth, {})
            self.common_kw(kw, None)
        elif kind == "ElementObj":
            kind = "Element"
            props = self.props(depth, 1)
            kw["properties"] = props
            self.object_kw(kw, depth, props)
            self.common_kw(kw, "Object")
        return {"k": kind, "kw": kw}

    def new_class(self, depth=0, base=None, name=None):
        rng = self.rng
        cid = f"c{len(self.world['classes'])}"
        name = name or CLASS_NAMES[len(self.world["classes"]) % len(CLASS_NAMES)]
        if len(self.world["classes"]) >= len(CLASS_NAMES):
            name += str(len(self.world["classes"]))
        props = self.props(depth, 0)
        kw = {}
        self.object_kw(kw, depth, props)
        self.common_kw(kw, "Object")
        entry = {"id": cid, "name": name, "base": base, "props": props, "kw": kw}
        if base is None and rng.random() < 0.2:
            entry["inline"] = True  # declared through Object.inline(...)
        if base is not None and rng.random() < 0.15:
            entry["mixin"] = rng.choice(["first", "last"])  # class C(Mixin, Base) / class C(Base, Mixin)
        elif base is not None and rng.random() < 0.12:
            entry["metacall"] = True  # ObjectMeta(name, (Base,), classdict, **kw)
        self.world["classes"].append(entry)
        return entry

    def new_shared(self, depth=1):
        sid = f"s{len(self.world['shared'])}"
        spec = self.element(depth)
        while spec["k"] in ("Ref", "Class"):
            spec = self.element(depth)
        self.world["shared"][sid] = spec
        return sid

    def generate(self):
        rng = self.rng
        todo = ["class"] * self.sw.n_classes + ["shared"] * self.sw.n_shared
        rng.shuffle(todo)
        for what in todo:
            if what == "class":
                base = None
                if (
                    self.sw.on["inherit"]
                    and self.world["classes"]
                    and rng.random() < 0.5
                ):
                    base = rng.choice(self.world["classes"])["id"]
                self.new_class(1, base)
            else:
                self.new_shared(1)
        self.world["root"] = self.element(0)
        return self.world


def gen_world(rng, force=(), forbid=()):
    swarm = Swarm(rng, force, forbid)
    return WorldGen(rng, swarm).generate(), swarm


# --------------------------------------------------------------------------
# values
# --------------------------------------------------------------------------


def _np(val):
    return isinstance(val, NotPassed)


def random_json(rng, depth=0):
    roll = rng.random()
    if rng.random() < 0.01:
        return rng.choice(EDGE_NUMBERS)
    if roll < 0.2:
        return rng.choice(STRS)
    if roll < 0.4:
        return rng.choice(INTS)
    if roll < 0.5:
        return rng.choice(FLOATS)
    if roll < 0.58:
        return rng.choice([True, False])
    if roll < 0.63:
        return None
    if depth >= 2:
        return rng.choice(INTS)
    if roll < 0.8:
        return [random_json(rng, depth + 1) for _ in range(rng.randint(0, 3))]
    return {
        rng.choice(PROP_NAMES): random_json(rng, depth + 1)
        for _ in range(rng.randint(0, 3))
    }


def _sample_for_pattern(rng, pattern):
    for pat, samples in PATTERNS:
        if pat == pattern:
            return rng.choice(samples)
    return rng.choice(STRS)


def _string_instance(rng, el):
    fmt = getattr(el, "format", NotPassed())
    pattern = getattr(el, "pattern", NotPassed())
    if not _np(fmt) and rng.random() < 0.8:
        if fmt == "uuid":
            return rng.choice(UUIDS)
        if fmt == "date-time":
            return rng.choice(DATETIMES)
    if not _np(pattern):
        base = _sample_for_pattern(rng, pattern)
    else:
        base = rng.choice(STRS)
    if rng.random() < 0.03:
        # a long string (fast paths for short strings are a classic)
        base = (base or "a") * rng.choice([40, 90, 200])
    lo = getattr(el, "minLength", NotPassed())
    hi = getattr(el, "maxLength", NotPassed())
    if not _np(lo) and isinstance(lo, int) and len(base) < lo:
        base = base + "a" * (lo - len(base))
    if not _np(hi) and isinstance(hi, int) and len(base) > hi >= 0:
        base = base[:hi]
    return base


def _numeric_instance(rng, el, integer):
    lo = None
    hi = None
    for key, off in (("minimum", 0), ("exclusiveMinimum", 1)):
        val = getattr(el, key, NotPassed())
        if not _np(val) and isinstance(val, (int, float)):
            cand = val + off
            lo = cand if lo is None else max(lo, cand)
    for key, off in (("maximum", 0), ("exclusiveMaximum", -1)):
        val = getattr(el, key, NotPassed())
        if not _np(val) and isinstance(val, (int, float)):
            cand = val + off
            hi = cand if hi is None else min(hi, cand)
    mult = getattr(el, "multipleOf", NotPassed())
    if lo is None and hi is None:
        val = rng.choice(INTS)
    elif lo is None:
        val = hi - rng.randint(0, 3)
    elif hi is None:
        val = lo + rng.randint(0, 3)
    else:
        val = lo if hi <= lo else lo + rng.random() * (hi - lo)
    if integer or rng.random() < 0.6:
        val = int(val) if val == int(val) else int(val) + (1 if val > 0 else 0)
    if not _np(mult) and isinstance(mult, (int, float)) and mult:
        val = (int(val / mult) or 1) * mult
        if integer and isinstance(val, float) and val == int(val):
            val = int(val)
    if not integer and rng.random() < 0.3:
        val = float(val)
    if rng.random() < (0.2 if isinstance(mult, float) else 0.03):
        # far beyond float precision (exact-arithmetic paths, if any)
        val = 10 ** rng.choice([17, 23, 29, 31]) + rng.choice([0, 1, 5])
    return val


def _array_instance(rng, el, depth):
    items = getattr(el, "items", NotPassed())
    additional = getattr(el, "additionalItems", True)
    lo = getattr(el, "minItems", NotPassed())
    hi = getattr(el, "maxItems", NotPassed())
    lo = lo if isinstance(lo, int) and not _np(lo) else 0
    hi = hi if isinstance(hi, int) and not _np(hi) else lo + 3
    n = rng.randint(lo, max(lo, min(hi, lo + 3)))
    out = []
    if isinstance(items, list):
        if additional is False or isinstance(additional, Nothing):
            n = min(n, len(items))
        for idx in range(n):
            if idx < len(items):
                out.append(instance(rng, items[idx], depth + 1))
            elif isinstance(additional, Element):
                out.append(instance(rng, additional, depth + 1))
            else:
                out.append(random_json(rng, 2))
    else:
        sub = Element() if _np(items) else items
        out = [instance(rng, sub, depth + 1) for _ in range(n)]
    contains = getattr(el, "contains", NotPassed())
    if isinstance(contains, Element) and rng.random() < 0.8:
        out.append(instance(rng, contains, depth + 1))
    return out


def _object_instance(rng, el, depth):
    out = {}
    props = getattr(el, "properties", None) or {}
    for attr, prop in props.items():
        src = prop.source or attr
        if prop.required or rng.random() < 0.6:
            out[src] = instance(rng, prop.element, depth + 1)
    required = getattr(el, "required", None)
    if isinstance(required, list):
        for key in required:
            if isinstance(key, str) and key not in out:
                out[key] = random_json(rng, 2)
    pattern = getattr(el, "patternProperties", None)
    if isinstance(pattern, dict):
        for pat, sub in pattern.items():
            if rng.random() < 0.6:
                out[_sample_for_pattern(rng, pat)] = instance(rng, sub, depth + 1)
    additional = getattr(el, "additionalProperties", True)
    if additional is True and rng.random() < 0.4:
        out[rng.choice(PROP_NAMES + ["extra"])] = random_json(rng, 2)
    elif isinstance(additional, Element) and not isinstance(additional, Nothing):
        if rng.random() < 0.5:
            out["extra"] = instance(rng, additional, depth + 1)
    deps = getattr(el, "dependencies", None)
    if isinstance(deps, dict):
        for key, dep in deps.items():
            if key in out and isinstance(dep, list):
                for other in dep:
                    out.setdefault(other, random_json(rng, 2))
    lo = getattr(el, "minProperties", NotPassed())
    if isinstance(lo, int) and not _np(lo):
        fill = 0
        while len(out) < lo and fill < 5:
            out.setdefault(f"x_{fill}", rng.choice(INTS))
            fill += 1
    return out


def instance(rng, el, depth=0):
    """Best-effort instance of a live element; intent is never trusted."""
    if depth > 6:
        return rng.choice(INTS)
    enum = getattr(el, "enum", NotPassed())
    const = getattr(el, "const", NotPassed())
    if not _np(const) and rng.random() < 0.85:
        return copy.deepcopy(const)
    if not _np(enum) and isinstance(enum, list) and enum and rng.random() < 0.85:
        return copy.deepcopy(rng.choice(enum))
    if isinstance(el, Nothing):
        return random_json(rng, 1)
    if isinstance(el, ObjectMeta):
        return _object_instance(rng, el, depth)
    if isinstance(el, Not):
        return random_json(rng, 1)
    if isinstance(el, CompositionElement):
        if isinstance(el, AllOf):
            vals = [instance(rng, sub, depth + 1) for sub in el.elements]
            if all(isinstance(v, dict) for v in vals):
                merged = {}
                for val in vals:
                    merged.update(val)
                return merged
            return vals[0]
        return instance(rng, rng.choice(el.elements), depth + 1)
    if isinstance(el, String):
        return _string_instance(rng, el)
    if isinstance(el, Integer):
        return _numeric_instance(rng, el, True)
    if isinstance(el, Number):
        return _numeric_instance(rng, el, False)
    if isinstance(el, Boolean):
        return rng.choice([True, False])
    if isinstance(el, Null):
        return None
    if isinstance(el, Array):
        return _array_instance(rng, el, depth)
    # untyped: look at which keyword groups are present
    has = lambda *keys: any(
        not _np(getattr(el, k, NotPassed())) for k in keys
    )
    options = []
    if getattr(el, "properties", None) or has(
        "required", "patternProperties", "minProperties", "maxProperties",
        "propertyNames", "dependencies",
    ) or getattr(el, "additionalProperties", True) is not True:
        options += ["o"] * 3
    if has("items", "minItems", "maxItems", "contains") or getattr(
        el, "uniqueItems", False
    ):
        options += ["a"] * 3
    if has("minLength", "maxLength", "pattern", "format"):
        options += ["s"] * 3
    if has("minimum", "maximum", "exclusiveMinimum", "exclusiveMaximum", "multipleOf"):
        options += ["n"] * 3
    options.append("j")
    pick = rng.choice(options)
    if pick == "o":
        return _object_instance(rng, el, depth)
    if pick == "a":
        return _array_instance(rng, el, depth)
    if pick == "s":
        return _string_instance(rng, el)
    if pick == "n":
        return _numeric_instance(rng, el, rng.random() < 0.5)
    return random_json(rng, 1)


def mutate(rng, value, depth=0):
    """Near miss of a value."""
    value = copy.deepcopy(value)
    if isinstance(value, dict):
        roll = rng.random()
        keys = list(value)
        if keys and roll < 0.3:
            del value[rng.choice(keys)]
        elif roll < 0.5:
            value[rng.choice(PROP_NAMES + ["extra", "zz"])] = random_json(rng, 2)
        elif keys and depth < 4:
            key = rng.choice(keys)
            value[key] = mutate(rng, value[key], depth + 1)
        else:
            value["extra2"] = None
        return value
    if isinstance(value, list):
        roll = rng.random()
        if value and roll < 0.25:
            value.pop(rng.randrange(len(value)))
        elif value and roll < 0.45:
            value.append(copy.deepcopy(rng.choice(value)))  # duplicate
        elif roll < 0.6:
            value.append(random_json(rng, 2))
        elif value and depth < 4:
            idx = rng.randrange(len(value))
            value[idx] = mutate(rng, value[idx], depth + 1)
        else:
            value = value + [None]
        return value
    if isinstance(value, bool):
        return rng.choice([int(value), not value, "true"])
    if isinstance(value, int):
        if rng.random() < 0.05:
            return rng.choice(EDGE_NUMBERS)
        return rng.choice([value + 1, value - 1, float(value), value * 7 + 1, str(value), True])
    if isinstance(value, float):
        if rng.random() < 0.05 or value != value or abs(value) > 1e300:
            return rng.choice(EDGE_NUMBERS + [0.5])
        return rng.choice([value + 0.5, -value, int(value), str(value)])
    if isinstance(value, str):
        if rng.random() < 0.04:
            return (value or "ab") * rng.choice([50, 150])
        return rng.choice([value + "x", value[:-1], value.upper(), 0, value + value + "abcdefg", None])
    return rng.choice([0, "", [], {}])


def _bool_containers(rng):
    """Lists of small containers whose members differ only as bool vs number -
    the corner every `uniqueItems`/`enum`/`const` comparison has to get right."""
    return rng.choice(
        [
            [[True], [1]],
            [[False], [0], [0.0]],
            [{"flag": False}, {"flag": 0}],
            [{"a": [True]}, {"a": [1]}, {"a": [True]}],
            [[1, [True]], [1, [1]]],
        ]
    )


def deep_value(rng, lo=30, hi=70):
    """Data nested `lo`..`hi` levels deep (lists and single-key dicts)."""
    val = rng.choice([0, "a", None])
    for _ in range(rng.randint(lo, hi)):
        val = [val] if rng.random() < 0.6 else {"a": val}
    return val


def gen_value(rng, el):
    """A value aimed at `el`: instance, near miss, or plain JSON."""
    if getattr(el, "uniqueItems", False) is True and rng.random() < 0.3:
        return copy.deepcopy(_bool_containers(rng))
    roll = rng.random()
    if roll < 0.5:
        return instance(rng, el)
    if roll < 0.85:
        val = instance(rng, el)
        for _ in range(rng.choice([1, 1, 2])):
            val = mutate(rng, val)
        return val
    return random_json(rng)
