"""C16, concurrent mode (engine T): registrations and validations from several
threads under the deterministic scheduler; linearizability-style oracle.

case = {"prop": "C16", "threads": [[op, ...], ...], "probes": [str...], schedule fields}
op   = {"op": "register", "name": n, "pred": <descriptor>} | {"op": "validate", "name": n, "value": str}
"""
import copy
import warnings

from statham.schema.elements import String
from statham.schema.validation.format import format_checker

from sim import gen, tprog
from sim.c16 import NAMES, PRISTINE_REGISTER, evaluate, gen_pred, make_pred, reset_registry
from sim.common import gen_perm, install_validator_order
from sim.world import attempt

PROP = "C16"
ENGINE = "T"
RULE = (
    "concurrent mode: 2-4 threads x 1-4 ops (register(name, predicate) / validate(String(format=name), string)) from "
    "Random(f'{VERIF_SEED}:C16T:{i}') run under the baton-passing scheduler (pre-emption at trace events in statham frames). "
    "Oracle: every in-flight validation's verdict must be explainable by the initial checker or a registration on that "
    "name that had started; after all threads have finished, every name with a completed registration is registered (no "
    "'unregistered' warning) and its verdicts over the probe strings equal those of a registration that no other "
    "registration on the name strictly followed. Non-trivial run: >=2 threads registering, >=1 pair of registrations on "
    "different names overlapping in time or >=1 validation overlapping a registration of its name, and >=1 pre-emption."
)
COMPONENTS = {
    "real": ["statham format_checker / Format validator / String element", "CPython threads"],
    "seam": ["semaphores deciding which thread runs", "registry reset to its import-time content before each run"],
    "stub": ["model: per name, the set of registrations that may be the last one"],
}
ASSUMPTIONS = [
    "linearizability at quiescence: the final checker of a name is one of its registrations that was not strictly followed by another",
    "pre-emption only inside /repo/statham frames",
]
REDUCE_ROOTS = (("threads",),)
PROBES = ["", "a", "ab", "abc", "x", "12", "7", "abab", "Zz", "x_1"]


def prepare():
    tprog.prepare()


def _factory(case, record):
    def factory(sch):
        fns = []
        for tid, ops in enumerate(case["threads"]):
            def fn(tid=tid, ops=ops):
                for idx, op in enumerate(ops):
                    start = sch.step
                    if op["op"] == "register":
                        format_checker.register(op["name"])(make_pred(op["pred"]))
                        out = None
                    else:
                        out = attempt(String(format=op["name"]), op["value"])[0]
                    record[(tid, idx)] = (start, sch.step, out)

            fns.append(fn)
        return fns

    return factory


def _reset():
    reset_registry()


def gen_case(rng):
    perm = gen_perm(rng)
    names = rng.sample([n for n in NAMES if n not in ("uuid", "date-time")], rng.randint(2, 4))
    if rng.random() < 0.3:
        names.append("uuid")
    n_threads = rng.choice([2, 2, 3, 4])
    threads = []
    focus = rng.choice(names)  # most traffic on one name: registrations racing validations
    p_register = rng.choice([0.35, 0.5, 0.65])
    for _ in range(n_threads):
        ops = []
        for _ in range(rng.randint(1, 4)):
            name = focus if rng.random() < 0.7 else rng.choice(names)
            if rng.random() < p_register:
                ops.append({"op": "register", "name": name, "pred": gen_pred(rng)})
            else:
                ops.append({"op": "validate", "name": name, "value": rng.choice(PROBES)})
        threads.append(ops)
    case = {
        "prop": PROP,
        "part": "T",
        "perm": perm,
        "threads": threads,
        "first": rng.randrange(n_threads),
        "policy": tprog.gen_policy(rng, n_threads, 60 * sum(len(t) for t in threads)),
        "policy_seed": rng.getrandbits(48),
        "opcodes": tprog.gen_granularity(rng),
    }
    install_validator_order(perm)
    _reset()
    try:
        tprog.record(case, _factory(case, {}))
    finally:
        _reset()
    return case


def exec_case(case, log, stats):
    install_validator_order(case.get("perm"))
    _reset()
    try:
        return _exec(case, log, stats)
    finally:
        _reset()


def _exec(case, log, stats):
    record = {}
    sch, digest = tprog.replay(case, _factory(case, record))
    log.add("schedule", digest, sch.step, sch.switches)
    tprog.schedule_stats(stats, sch, case)
    regs = {}  # name -> [(start, end, pred)]
    for tid, ops in enumerate(case["threads"]):
        for idx, op in enumerate(ops):
            start, end, out = record[(tid, idx)]
            log.add(tid, idx, op["op"], op["name"], out)
            if op["op"] == "register":
                regs.setdefault(op["name"], []).append((start, end, op["pred"]))
                stats.inc("register_ops")
    # in-flight validations
    for tid, ops in enumerate(case["threads"]):
        for idx, op in enumerate(ops):
            if op["op"] != "validate":
                continue
            start, end, out = record[(tid, idx)]
            stats.inc("validate_ops")
            name, value = op["name"], op["value"]
            # linearizability: the checker consulted is the initial one or a
            # registration that had started, provided no *other* registration on
            # the name lies entirely between it and this validation
            writes = [(-1, -1, None)] + [(rs, re_, pred) for rs, re_, pred in regs.get(name, [])]
            possible = set()
            unknown = False
            for wstart, wend, pred in writes:
                if wstart > end:
                    continue  # began after the validation had finished
                if any(
                    ostart > wend and oend < start
                    for ostart, oend, opred in writes
                    if (ostart, oend) != (wstart, wend)
                ):
                    continue  # certainly overwritten before the validation began
                if pred is None:
                    if name in PRISTINE_REGISTER:
                        try:
                            possible.add("accept" if PRISTINE_REGISTER[name](value) else "reject")
                        except Exception:  # pylint: disable=broad-except
                            unknown = True
                    else:
                        possible.add("accept")
                else:
                    possible.add("accept" if evaluate(pred, value) else "reject")
            if unknown:
                continue
            if out not in possible:
                return {
                    "invariant": "concurrent_verdict_unexplained",
                    "op_index": [tid, idx],
                    "detail": {"name": name, "value": value, "verdict": out, "possible": sorted(possible)},
                }
    # quiescence
    overlapping_pairs = 0
    names = sorted(regs)
    for i, a in enumerate(names):
        for b in names[i + 1 :]:
            for sa, ea, _ in regs[a]:
                for sb, eb, _ in regs[b]:
                    if sa <= eb and sb <= ea:
                        overlapping_pairs += 1
    stats.inc("overlapping_registrations_on_different_names", overlapping_pairs)
    for name, items in regs.items():
        last = [
            pred
            for (start, end, pred) in items
            if not any(ostart > end for (ostart, _, _) in items)
        ]
        vector = []
        warned_any = False
        for probe in PROBES:
            with warnings.catch_warnings(record=True) as caught:
                warnings.simplefilter("always")
                verdict = attempt(String(format=name), probe)[0]
            warned_any = warned_any or any(
                issubclass(w.category, RuntimeWarning) for w in caught
            )
            vector.append(verdict)
        log.add("final", name, vector, warned_any)
        if warned_any:
            return {
                "invariant": "registration_lost",
                "op_index": None,
                "detail": {"name": name, "registrations": len(items), "steps": sch.step, "preemptions": sch.switches},
            }
        expected = [
            ["accept" if evaluate(pred, probe) else "reject" for probe in PROBES]
            for pred in last
        ]
        if vector not in expected:
            return {
                "invariant": "final_checker_not_a_last_registration",
                "op_index": None,
                "detail": {"name": name, "final": vector, "candidates": last},
            }
    registering_threads = sum(
        1 for ops in case["threads"] if any(op["op"] == "register" for op in ops)
    )
    racing_validations = 0
    for tid, ops in enumerate(case["threads"]):
        for idx, op in enumerate(ops):
            if op["op"] != "validate":
                continue
            start, end, _ = record[(tid, idx)]
            for rstart, rend, _ in regs.get(op["name"], []):
                if rstart <= end and start <= rend:
                    racing_validations += 1
    stats.inc("validations_overlapping_a_registration_of_their_name", racing_validations)
    stats["_nontrivial"] = int(
        registering_threads >= 2
        and (overlapping_pairs >= 1 or racing_validations >= 1)
        and sch.switches >= 1
    )
    return None


def minimise(case, invariant, budget_s):
    return tprog.minimise_threads("C16T", case, invariant, budget_s, REDUCE_ROOTS)


def valid_case(case):
    from sim.c16 import valid_pred

    if not isinstance(case.get("threads"), list):
        return False
    for ops in case["threads"]:
        for op in ops:
            if not isinstance(op.get("name"), str):
                return False
            if op.get("op") == "register" and not valid_pred(op.get("pred")):
                return False
            if op.get("op") == "validate" and not isinstance(op.get("value"), str):
                return False
    return True


def fault_counts(stats):
    return {
        "preemptions": stats.get("preemptions", 0),
        "preemptions_at_write_sites": stats.get("preemptions_at_write_sites", 0),
        "overlapping_registrations_on_different_names": stats.get(
            "overlapping_registrations_on_different_names", 0
        ),
        "policies": {k.split(":", 1)[1]: v for k, v in stats.items() if k.startswith("policy:")},
    }


def sample_of(case):
    return {"threads": case["threads"], "policy": case.get("policy"), "n_segments": len(case["segments"])}


def signature(case, violation):
    return {"invariant": violation["invariant"]}
