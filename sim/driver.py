"""Generic driver for engine-H/T machines: seeded runs -> oracle -> minimise ->
replay file -> evidence.  Engine P (C09) has its own driver in sim.c09."""
import copy
import importlib
import json
import os
import subprocess
import sys
import time

from sim import common
from sim.common import (
    Counter,
    EventLog,
    HarnessError,
    base_seed,
    digest_of,
    load_known_findings,
    merge_counts,
    rng_for,
    run_pool,
    write_evidence,
    write_replay,
)
from sim.minimise import ddmin_list, reduce_json, remap_ops

MACHINES = {
    "C08": "sim.c08",
    "C13": "sim.c13",
    "C15": "sim.c15",
    "C16": "sim.c16",
    "C14": "sim.c14",
    "C13T": "sim.c13t",
    "C16T": "sim.c16t",
    "C09T": "sim.c09t",
    "C15T": "sim.c15t",
    "C09S": "sim.c09s",
}
# a property's check = one or more machines ("parts")
PARTS = {
    "C08": ["C08"],
    "C13": ["C13", "C13T"],
    "C15": ["C15", "C15T"],
    "C16": ["C16", "C16T"],
    "C14": ["C14"],
}

# runs per tier (override with VERIF_RUNS) and wall-clock safety caps
TIERS = {
    "C08": {"quick": (4000, 240), "thorough": (160000, 3000)},
    "C13": {"quick": (8000, 240), "thorough": (300000, 3000)},
    "C15": {"quick": (2000, 240), "thorough": (100000, 3000)},
    "C16": {"quick": (12000, 240), "thorough": (600000, 3000)},
    "C14": {"quick": (2500, 300), "thorough": (100000, 3600)},
    "C13T": {"quick": (4000, 200), "thorough": (120000, 2400)},
    "C16T": {"quick": (6000, 200), "thorough": (200000, 2400)},
    "C09T": {"quick": (200, 200), "thorough": (12000, 2400)},
    "C15T": {"quick": (1500, 200), "thorough": (60000, 2400)},
    "C09S": {"quick": (1200, 120), "thorough": (60000, 1800)},
}


def machine(prop):
    return importlib.import_module(MACHINES[prop])


def run_index(prop, seed, index, keep_case=False, keep_log=False):
    """One simulated run: a pure function of (code, prop, seed, index).
    The case is generated in one pristine process and executed in another, so
    executing it here, in the parent while minimising, or from a replay file
    in a new interpreter are the very same computation."""
    case = common.run_isolated("sim.driver", "gen_case_local", prop, seed, index)
    return run_case(prop, case, keep_case=keep_case, keep_log=keep_log)


def gen_case_local(prop, seed, index):
    mach = machine(prop)
    rng = rng_for(seed, prop, index)
    case = mach.gen_case(rng)
    case["seed"] = seed
    case["run"] = index
    return json.dumps(case)


def run_case(prop, case, keep_case=False, keep_log=False):
    # always as JSON text: the execution must not depend on object sharing or
    # other accidents of how the case was produced in this process
    text = case if isinstance(case, str) else json.dumps(case)
    return common.run_isolated(
        "sim.driver", "run_case_json", prop, text, keep_case, keep_log
    )


def run_case_json(prop, text, keep_case=False, keep_log=False):
    return run_case_local(prop, json.loads(text), keep_case, keep_log)


def run_case_local(prop, case, keep_case=False, keep_log=False):
    mach = machine(prop)
    log = EventLog(keep=keep_log)
    stats = Counter()
    violation = mach.exec_case(case, log, stats)
    nontrivial = bool(stats.pop("_nontrivial", 0))
    out = {
        "digest": log.hexdigest(),
        "events": log.n,
        "stats": dict(stats),
        "nontrivial": nontrivial,
        "violation": violation,
    }
    if violation is not None or keep_case:
        out["case"] = case
    if keep_log:
        out["log"] = log.kept
    return out


# --------------------------------------------------------------------------
# minimisation
# --------------------------------------------------------------------------


def still_fails(prop, case, invariant):
    mach = machine(prop)
    try:
        if hasattr(mach, "valid_case") and not mach.valid_case(case):
            return False
        viol = run_case(prop, case)["violation"]
    except Exception:  # pylint: disable=broad-except
        return False
    return viol is not None and viol["invariant"] == invariant


def minimise(prop, case, invariant, budget_s):
    mach = machine(prop)
    if hasattr(mach, "minimise"):
        return mach.minimise(case, invariant, budget_s)
    deadline = time.time() + budget_s
    case = copy.deepcopy(case)
    # 1. ops
    if "ops" in case:
        ops = case["ops"]

        def test_ops(keep):
            cand = dict(case)
            cand["ops"] = remap_ops(ops, keep)
            return bool(cand["ops"]) and still_fails(prop, cand, invariant)

        kept = ddmin_list(list(range(len(ops))), test_ops, deadline)
        if kept and test_ops(kept):
            case["ops"] = remap_ops(ops, kept)
    # 2. world + values
    roots = [r for r in getattr(mach, "REDUCE_ROOTS", (("world",), ("ops",)))]
    case = reduce_json(
        case, lambda cand: still_fails(prop, cand, invariant), deadline, roots
    )
    # 3. ops once more (world shrinking often frees ops)
    if "ops" in case and time.time() < deadline:
        ops = case["ops"]

        def test_ops2(keep):
            cand = dict(case)
            cand["ops"] = remap_ops(ops, keep)
            return bool(cand["ops"]) and still_fails(prop, cand, invariant)

        kept = ddmin_list(list(range(len(ops))), test_ops2, deadline)
        if kept and test_ops2(kept):
            case["ops"] = remap_ops(ops, kept)
    return case


# --------------------------------------------------------------------------
# replay
# --------------------------------------------------------------------------


def replay_file(path):
    """Run a replay file in this interpreter.  -> (exit code, line)."""
    with open(path, encoding="utf8") as fh:
        doc = json.load(fh)
    prop = doc["property"]
    if prop == "C09" and doc.get("machine") not in MACHINES:
        from sim import c09

        return c09.replay(doc, path)
    mkey = doc.get("machine", prop)
    if hasattr(machine(mkey), "prepare"):
        common.PRELOAD.append((MACHINES[mkey], "prepare"))
    common.start_zygotes()
    out = run_case(mkey, doc["case"])
    viol = out["violation"]
    if viol is None:
        print(f"replay: no violation reproduced for {path}")
        return 0
    same = viol["invariant"] == doc["violation"]["invariant"]
    same_digest = out["digest"] == doc.get("digest")
    print(
        f"replay: invariant={viol['invariant']} op_index={viol.get('op_index')} "
        f"same_invariant={same} same_digest={same_digest}"
    )
    print(f"REPLAY-DIGEST {out['digest']}")
    if same:
        print(f"VIOLATION property={prop} replay={path}")
        return 1
    return 3


def confirm_replay(path):
    """Replay in a fresh interpreter (different hash seed); must reproduce."""
    env = dict(os.environ)
    env.pop("STATHAM_VERIF_CHILD", None)
    env["STATHAM_VERIF_HASHSEED"] = "4242"
    env["STATHAM_VERIF_PAD"] = "x" * 777
    proc = subprocess.run(
        [sys.executable, os.path.join(common.VERIF, "bin", "check"), "replay", path],
        env=env,
        capture_output=True,
        text=True,
        timeout=600,
    )
    with open(path, encoding="utf8") as fh:
        doc = json.load(fh)
    want = f"REPLAY-DIGEST {doc.get('digest')}"
    ok = proc.returncode == 1 and (
        want in proc.stdout or doc.get("digest") is None
    )
    return ok, proc.stdout[-2000:] + proc.stderr[-2000:]


# --------------------------------------------------------------------------
# known findings
# --------------------------------------------------------------------------


def match_known(prop, sig, findings):
    for entry in findings.get("open", []):
        if entry.get("property") != prop:
            continue
        match = entry.get("match", {})
        if all(sig.get(k) == v for k, v in match.items()):
            return entry
    return None


# --------------------------------------------------------------------------
# main check
# --------------------------------------------------------------------------


def determinism_sample(prop, seed, indices, digests):
    """Re-run some indices in a fresh interpreter with another hash seed and
    environment size; digests must match."""
    env = dict(os.environ)
    env.pop("STATHAM_VERIF_CHILD", None)
    env["STATHAM_VERIF_HASHSEED"] = "31337"
    env["STATHAM_VERIF_PAD"] = "y" * 1234
    env["STATHAM_VERIF_ZYG_HASHSEED"] = "31337"
    env["STATHAM_VERIF_ZYG_PAD"] = "y" * 1234
    env["VERIF_SEED"] = str(seed)
    proc = subprocess.run(
        [
            sys.executable,
            os.path.join(common.VERIF, "bin", "check"),
            "digest",
            prop,
            ",".join(str(i) for i in indices),
        ],
        env=env,
        capture_output=True,
        text=True,
        timeout=900,
    )
    if proc.returncode != 0:
        raise HarnessError(
            f"determinism child failed: {proc.stdout[-1000:]}{proc.stderr[-2000:]}"
        )
    line = [l for l in proc.stdout.splitlines() if l.startswith("DIGESTS ")]
    got = json.loads(line[-1][len("DIGESTS ") :])
    mismatched = [i for i in indices if got.get(str(i)) != digests[i]]
    return {"checked": len(indices), "mismatched": mismatched}


def _run_for_pool(prop, seed, sample_every, index):
    keep = bool(sample_every) and index % sample_every == 0
    return run_index(prop, seed, index, keep_case=keep)


def _worker(args):
    import functools

    prop, seed, sample_every = args
    return functools.partial(_run_for_pool, prop, seed, sample_every)


def check(prop, tier):
    """Run every part (machine) of a property's check; merge the evidence."""
    t0 = time.time()
    common.import_statham()
    seed = base_seed()
    exit_code = 0
    coverages = {}
    assumptions = []
    reported = 0
    for mkey in PARTS[prop]:
        code, coverage, n_reported = check_part(prop, mkey, tier)
        if code == 2:
            return 2
        exit_code = max(exit_code, code)
        coverages[mkey] = coverage
        reported += n_reported
        for text in getattr(machine(mkey), "ASSUMPTIONS", []):
            if text not in assumptions:
                assumptions.append(text)
    main = coverages[PARTS[prop][0]]
    if len(coverages) == 1:
        merged = main
    else:
        merged = {
            "evaluations": sum(c["evaluations"] for c in coverages.values()),
            "distinct_nontrivial": sum(c["distinct_nontrivial"] for c in coverages.values()),
            "rule": " || ".join(f"[{k}] {c['rule']}" for k, c in coverages.items()),
            "samples": [smp for c in coverages.values() for smp in c["samples"][:2]],
            "runs_per_hour": int(
                sum(c["evaluations"] for c in coverages.values()) / max(1e-9, time.time() - t0) * 3600
            ),
            "logical_steps": sum(c["logical_steps"] for c in coverages.values()),
            "parts": coverages,
        }
    write_evidence(prop, tier, seed, merged, time.time() - t0, reported, assumptions)
    return exit_code


def check_part(prop, mkey, tier):
    """One machine of a property's check.  -> (exit code, coverage, #reported)"""
    t0 = time.time()
    mach = machine(mkey)
    common.PRELOAD[:] = (
        [(MACHINES[mkey], "prepare")] if hasattr(mach, "prepare") else []
    )
    common.start_zygotes()  # before this process uses the library at all
    seed = base_seed()
    n_runs, cap_s = TIERS[mkey][tier]
    n_runs = int(os.environ.get("VERIF_RUNS", n_runs))
    cap_s = int(os.environ.get("VERIF_CAP_S", cap_s))
    seam_ok = common.run_isolated("sim.common", "seam_probe")
    sample_every = max(1, n_runs // 3)
    results, errors, skipped = run_pool(
        _worker((mkey, seed, sample_every)),
        range(n_runs),
        deadline=t0 + cap_s,
        hang_s=int(os.environ.get("VERIF_HANG_S", "180")),
    )
    if errors:
        for index, text in errors[:3]:
            print(f"HARNESS-ERROR: {prop} run {index}:\n{text}", file=sys.stderr)
        print(f"HARNESS-ERROR: {len(errors)} run(s) failed inside the harness")
        return 2, None, 0
    if not results:
        print("HARNESS-ERROR: no runs executed")
        return 2, None, 0
    # ---- aggregate ------------------------------------------------------
    stats = {}
    nontrivial_digests = set()
    all_digests = set()
    events = 0
    samples = []
    failing = []
    for index in sorted(results):
        res = results[index]
        merge_counts(stats, res["stats"])
        events += res["events"]
        all_digests.add(res["digest"])
        if res["nontrivial"]:
            nontrivial_digests.add(res["digest"])
        if res["violation"] is not None:
            failing.append((index, res))
        elif "case" in res and len(samples) < 3:
            samples.append(mach.sample_of(res["case"]) if hasattr(mach, "sample_of") else res["case"])
    # ---- violations ------------------------------------------------------
    findings = load_known_findings()
    exit_code = 0
    reported = []
    known_hit = []
    by_sig = {}
    for index, res in failing:
        sig = mach.signature(res["case"], res["violation"])
        by_sig.setdefault(json.dumps(sig, sort_keys=True), []).append((index, res))
    budget = 45 if tier == "quick" else 240
    for sig_key, group in list(by_sig.items())[:4]:
        index, res = group[0]
        invariant = res["violation"]["invariant"]
        small = minimise(mkey, res["case"], invariant, budget)
        out = run_case(mkey, small)
        if out["violation"] is None or out["violation"]["invariant"] != invariant:
            small, out = res["case"], run_case(mkey, res["case"])
        if out["violation"] is None:
            print(
                f"HARNESS-ERROR: {prop} run {index} violated {invariant} in its worker but not when "
                "re-executed in the parent process: outcome depends on process history"
            )
            return 2, None, 0
        sig = mach.signature(small, out["violation"])
        doc = {
            "property": prop,
            "machine": mkey,
            "engine": getattr(mach, "ENGINE", "H"),
            "seed": seed,
            "run": index,
            "violation": out["violation"],
            "signature": sig,
            "digest": out["digest"],
            "case": small,
            "failing_runs": [i for i, _ in group][:50],
        }
        path = write_replay(prop, f"{mkey}-{seed}-{index}", doc)
        ok, text = confirm_replay(path)
        if not ok:
            print(f"HARNESS-ERROR: non-replayable violation {path}\n{text}")
            return 2, None, 0
        entry = match_known(prop, sig, findings)
        if entry is not None:
            print(f"KNOWN-FINDING: property={prop} {entry['what']} (replay={path})")
            known_hit.append(entry.get("id", entry["what"]))
            continue
        print(
            f"violation: {prop} invariant={invariant} "
            f"runs={len(group)} first_run={index} detail="
            f"{json.dumps(out['violation'].get('detail'), default=repr)[:600]}"
        )
        print(f"VIOLATION property={prop} replay={path}")
        reported.append(path)
        exit_code = 1
    # ---- determinism sample --------------------------------------------
    det = {"checked": 0, "mismatched": []}
    if os.environ.get("VERIF_NO_DET") != "1" and exit_code == 0 and not failing:
        picks = sorted(results)[:: max(1, len(results) // 8)][:8]
        det = determinism_sample(
            mkey, seed, picks, {i: results[i]["digest"] for i in picks}
        )
        if det["mismatched"]:
            print(
                f"HARNESS-ERROR: nondeterministic runs {det['mismatched']} "
                f"(digest differs in a fresh interpreter)"
            )
            return 2, None, 0
    # ---- evidence --------------------------------------------------------
    wall = time.time() - t0
    coverage = {
        "evaluations": len(results),
        "distinct_nontrivial": len(nontrivial_digests),
        "rule": mach.RULE,
        "samples": samples or [{"note": "all sampled runs violated"}],
        "distinct_event_digests": len(all_digests),
        "runs_requested": n_runs,
        "runs_skipped_at_cap": len(skipped),
        "runs_per_hour": int(len(results) / wall * 3600) if wall > 0 else 0,
        "seeds": {"base": seed, "first_run": 0, "last_run": max(results)},
        "logical_steps": events,
        "simulated_time_note": "this code base has no clock; simulated time is reported as logical steps (events)",
        "fault_counts": mach.fault_counts(stats) if hasattr(mach, "fault_counts") else {},
        "probes": stats,
        "components": getattr(mach, "COMPONENTS", {}),
        "seam_validator_order": seam_ok,
        "determinism_sample": det,
        "failing_runs": len(failing),
        "known_findings_hit": known_hit,
        "replays": reported,
    }
    print(
        f"{mkey} {tier}: runs={len(results)} nontrivial_distinct="
        f"{len(nontrivial_digests)} failing={len(failing)} wall={wall:.1f}s "
        f"({coverage['runs_per_hour']} runs/h)"
    )
    if skipped and exit_code == 0:
        print(f"note: {len(skipped)} runs not started (wall-clock cap)")
    return exit_code, coverage, len(reported)


def digest_cmd(prop, indices):
    common.import_statham()
    if hasattr(machine(prop), "prepare"):
        common.PRELOAD.append((MACHINES[prop], "prepare"))
    common.start_zygotes()
    seed = base_seed()
    out = {}
    for index in indices:
        out[str(index)] = run_index(prop, seed, index)["digest"]
    print("DIGESTS " + json.dumps(out))
    return 0
