"""Engine P child: one simulated process configuration.

usage: c09_child.py <repo> <batch.json> [full|hash] [order seed]
Processes every document of the batch in this interpreter and prints one JSON
line `RESULT {...}`.  Run by the parent under a chosen PYTHONHASHSEED, with
ASLR off (setarch -R) and an environment padding of chosen length.
"""
import hashlib
import importlib
import json
import pkgutil
import sys
import warnings


def _sha(text):
    return hashlib.sha256(text.encode("utf8")).hexdigest()


def _clear_caches():
    import json_ref_dict

    for info in pkgutil.iter_modules(json_ref_dict.__path__):
        mod = importlib.import_module("json_ref_dict." + info.name)
        for val in list(vars(mod).values()):
            clear = getattr(val, "cache_clear", None)
            if callable(clear):
                try:
                    clear()
                except Exception:  # pylint: disable=broad-except
                    pass


def _all_validator_classes(klass):
    out = list(type.__subclasses__(klass))
    for sub in list(out):
        out.extend(_all_validator_classes(sub))
    return out


def main(argv):
    repo, batch_path = argv[1], argv[2]
    full = len(argv) > 3 and argv[3] == "full"
    order = int(argv[4]) if len(argv) > 4 else 0
    sys.path.insert(0, repo)
    # (no blanket warning filter here: the warning filters of the process are
    # part of the simulated configuration)
    import statham
    from statham.__main__ import main as statham_main
    from statham.schema.constants import COMPOSITION_KEYWORDS
    from statham.schema.parser import parse
    from statham.serializers import serialize_json
    from statham.titles import title_labeller
    from statham.schema import validation
    from json_ref_dict import RefDict, materialize

    assert statham.__file__.startswith(repo), statham.__file__
    with open(batch_path, encoding="utf8") as fh:
        batch = json.load(fh)
    out = {
        "keyword_order": list(set(COMPOSITION_KEYWORDS) - {"not"}),
        # a digest of the address layout: iteration order of a set of classes
        "validator_order": _sha(
            ",".join(c.__name__ for c in set(_all_validator_classes(validation.Validator)))
        )[:12],
        "hashseed": __import__("os").environ.get("PYTHONHASHSEED"),
        "docs": {},
    }
    docs = list(batch["docs"])
    if order:
        import random

        random.Random(order).shuffle(docs)
    for doc in docs:
        uri = doc["uri"]
        res = {}
        _clear_caches()
        try:
            text = statham_main(uri)
            res["py"] = _sha(text)
            if full:
                res["py_text"] = text
        except RecursionError:
            res["py"] = "EXC:RecursionError"
        except Exception as exc:  # pylint: disable=broad-except
            res["py"] = "EXC:" + type(exc).__name__
        _clear_caches()
        try:
            schema = materialize(
                RefDict.from_uri(uri), context_labeller=title_labeller()
            )
            elements = parse(schema)
            names = []
            from statham.serializers.orderer import get_object_classes

            for cls in get_object_classes(*elements):
                if cls.__name__ not in names:
                    names.append(cls.__name__)
            text = json.dumps(serialize_json(*elements), default=repr)
            res["json"] = _sha(text)
            res["names"] = names
            if full:
                res["json_text"] = text
            # the single-element entry point (public, "called by parse"): its
            # naming must not depend on what this process parsed before either
            from statham.schema.parser import parse_element
            from statham.serializers import serialize_python

            schema2 = materialize(
                RefDict.from_uri(uri), context_labeller=title_labeller()
            )
            res["pe"] = _sha(serialize_python(parse_element(schema2)))
        except RecursionError:
            res["json"] = "EXC:RecursionError"
        except Exception as exc:  # pylint: disable=broad-except
            res["json"] = "EXC:" + type(exc).__name__
        out["docs"][doc["id"]] = res
    print("RESULT " + json.dumps(out))
    return 0


if __name__ == "__main__":
    sys.setrecursionlimit(1000)
    sys.exit(main(sys.argv))
