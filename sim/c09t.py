"""C09, concurrent mode (engine T): several threads of one process generate
from different documents at the same time; each output must be byte-identical
to the output for that document generated alone.

case = {"prop": "C09", "threads": [[{"document", "ext"}...]...], schedule fields}
"""
import hashlib
import json
import os
import shutil
import tempfile

# everything the threads use is imported here, before any thread exists:
# imports must not happen under the scheduler (a thread parked while it holds
# an import lock would hand other threads a partially initialised module)
import statham.__main__  # noqa  pylint: disable=unused-import
import statham.serializers  # noqa  pylint: disable=unused-import
from statham.__main__ import main as statham_main

from sim import c09, common, tprog

PROP = "C09"
ENGINE = "T"
RULE = (
    "concurrent mode: 2-3 threads x 1-2 documents from Random(f'{VERIF_SEED}:C09T:{i}') call statham.__main__.main(uri) "
    "(materialize + title labelling + parse + serialize_python) under the baton-passing scheduler; json_ref_dict frames run "
    "atomically, every statham frame is pre-emptible. Oracle: each generated module equals the module generated for the same "
    "document alone in a pristine process. In 40% of runs the threads instead serialise (serialize_python / serialize_json) "
    "one shared, already parsed element tree and must each produce the text produced alone. Non-trivial run: >=2 generations overlapping in time, each document holding "
    ">=2 equally-titled distinct object schemas; distinct = distinct schedule digests."
)
COMPONENTS = {
    "real": ["statham.__main__.main, parser, serializers, titles; json_ref_dict (atomic); CPython threads"],
    "seam": ["semaphores deciding which thread runs"],
    "stub": [],
}
ASSUMPTIONS = [
    "threads generate from different files; json_ref_dict's own caches/IO run atomically (outside the package)",
]
REDUCE_ROOTS = (("threads",), ("document",))


def prepare():
    tprog.prepare()


def _write(workdir, case):
    uris = []
    for tid, docs in enumerate(case["threads"]):
        row = []
        for k, item in enumerate(docs):
            doc_id = f"t{tid}_{k}"
            c09.write_docs(workdir, [(doc_id, item["document"], item.get("ext"))])
            row.append(os.path.join(workdir, f"{doc_id}.json") + "#/")
        uris.append(row)
    return uris


def _generate(uri):
    try:
        return statham_main(uri)
    except RecursionError:
        return "EXC:RecursionError"
    except Exception as exc:  # pylint: disable=broad-except
        return "EXC:" + type(exc).__name__


def _parse(uri):
    from json_ref_dict import RefDict, materialize
    from statham.schema.parser import parse
    from statham.titles import title_labeller

    return parse(materialize(RefDict.from_uri(uri), context_labeller=title_labeller()))


def _serialise(kind, elements):
    from statham.serializers import serialize_json, serialize_python

    try:
        if kind == "py":
            return serialize_python(*elements)
        return json.dumps(serialize_json(*elements), default=repr)
    except RecursionError:
        return "EXC:RecursionError"
    except Exception as exc:  # pylint: disable=broad-except
        return "EXC:" + type(exc).__name__


def solo_tree(uri, kinds):
    """Reference for the shared-tree mode: parse once, serialise alone."""
    try:
        elements = _parse(uri)
    except Exception as exc:  # pylint: disable=broad-except
        return None, "EXC:" + type(exc).__name__
    return {kind: _serialise(kind, elements) for kind in kinds}, None


def solo(uris):
    """Reference: every document generated alone (run via common.pristine,
    one pristine process per call of this function)."""
    return [[_generate(uri) for uri in row] for row in uris]


def _factory(uris, outputs, record):
    def factory(sch):
        fns = []
        for tid, row in enumerate(uris):
            def fn(tid=tid, row=row):
                for k, uri in enumerate(row):
                    start = sch.step
                    outputs[(tid, k)] = _generate(uri)
                    record[(tid, k)] = (start, sch.step)

            fns.append(fn)
        return fns

    return factory


def _factory_shared(case, elements, outputs, record):
    """Threads serialise one already parsed tree (they share every element)."""

    def factory(sch):
        fns = []
        for tid, kinds in enumerate(case["threads"]):
            def fn(tid=tid, kinds=kinds):
                for k, kind in enumerate(kinds):
                    start = sch.step
                    outputs[(tid, k)] = _serialise(kind, elements)
                    record[(tid, k)] = (start, sch.step)

            fns.append(fn)
        return fns

    return factory


def _gen_shared(rng):
    gen = c09.DocGen(rng)
    gen.max_depth = rng.choice([1, 2, 2])
    doc, ext = gen.document()
    n_threads = rng.choice([2, 2, 3, 4])
    threads = [
        [rng.choice(["py", "py", "json"]) for _ in range(rng.choice([1, 1, 2]))]
        for _ in range(n_threads)
    ]
    case = {
        "prop": PROP,
        "part": "T",
        "mode": "shared_tree",
        "document": doc,
        "ext": ext,
        "threads": threads,
        "first": rng.randrange(n_threads),
        "policy": tprog.gen_policy(rng, n_threads, 1500 * n_threads),
        "policy_seed": rng.getrandbits(48),
        "step_cap": 400000,
    }
    workdir = tempfile.mkdtemp(prefix="c09t_")
    try:
        c09.write_docs(workdir, [("shared", doc, ext)])
        try:
            elements = _parse(os.path.join(workdir, "shared.json") + "#/")
        except Exception:  # pylint: disable=broad-except
            elements = None
        if elements is None:
            case["segments"] = []
        else:
            tprog.record(case, _factory_shared(case, elements, {}, {}))
    finally:
        shutil.rmtree(workdir, ignore_errors=True)
    return case


def _exec_shared(case, log, stats):
    workdir = tempfile.mkdtemp(prefix="c09t_")
    try:
        c09.write_docs(workdir, [("shared", case["document"], case.get("ext"))])
        uri = os.path.join(workdir, "shared.json") + "#/"
        kinds = sorted({k for kinds in case["threads"] for k in kinds})
        alone, err = common.pristine("sim.c09t", "solo_tree", uri, kinds)
        if err is not None:
            stats.inc("shared_tree_documents_raising")
            log.add("raises", err)
            return None
        elements = _parse(uri)
        outputs, record = {}, {}
        sch, digest = tprog.replay(case, _factory_shared(case, elements, outputs, record))
    finally:
        shutil.rmtree(workdir, ignore_errors=True)
    log.add("schedule", digest, sch.step, sch.switches)
    tprog.schedule_stats(stats, sch, case)
    stats.inc("shared_tree_runs")
    spans = []
    for tid, kinds in enumerate(case["threads"]):
        for k, kind in enumerate(kinds):
            text = outputs[(tid, k)]
            log.add(tid, k, kind, hashlib.sha256(text.encode("utf8")).hexdigest())
            spans.append((tid, k) + record[(tid, k)])
            stats.inc("serialisations")
            if "EXC:RecursionError" in (text, alone[kind]):
                stats.inc("recursion_exhausted(no output)")
                continue
            if text != alone[kind]:
                return {
                    "invariant": "concurrent_output_differs_from_solo",
                    "op_index": [tid, k],
                    "detail": {
                        "mode": "shared_tree",
                        "thread": tid,
                        "kind": kind,
                        "concurrent": text[:1500],
                        "alone": alone[kind][:1500],
                        "steps": sch.step,
                        "preemptions": sch.switches,
                    },
                }
    overlapping = sum(
        1 for a in spans for b in spans if a[0] < b[0] and a[2] <= b[3] and b[2] <= a[3]
    )
    stats.inc("overlapping_generations", overlapping)
    stats["_nontrivial"] = int(
        overlapping >= 1 and c09.is_nontrivial(case["document"], case.get("ext"))
    )
    return None


def gen_case(rng):
    if rng.random() < 0.4:
        return _gen_shared(rng)
    n_threads = rng.choice([2, 2, 3])
    threads = []
    for _ in range(n_threads):
        docs = []
        for _ in range(rng.choice([1, 1, 2])):
            gen = c09.DocGen(rng)
            gen.max_depth = rng.choice([1, 1, 2])
            doc, ext = gen.document()
            # keep documents small: the schedule space, not the document, is explored here
            docs.append({"document": doc, "ext": ext})
        threads.append(docs)
    case = {
        "prop": PROP,
        "part": "T",
        "threads": threads,
        "first": rng.randrange(n_threads),
        "policy": tprog.gen_policy(rng, n_threads, 3000 * n_threads),
        "policy_seed": rng.getrandbits(48),
        "step_cap": 400000,
    }
    workdir = tempfile.mkdtemp(prefix="c09t_")
    try:
        uris = _write(workdir, case)
        tprog.record(case, _factory(uris, {}, {}))
    finally:
        shutil.rmtree(workdir, ignore_errors=True)
    return case


def exec_case(case, log, stats):
    if case.get("mode") == "shared_tree":
        return _exec_shared(case, log, stats)
    workdir = tempfile.mkdtemp(prefix="c09t_")
    try:
        uris = _write(workdir, case)
        # one pristine process per document
        alone = [
            [common.pristine("sim.c09t", "solo", [[uri]])[0][0] for uri in row]
            for row in uris
        ]
        outputs, record = {}, {}
        sch, digest = tprog.replay(case, _factory(uris, outputs, record))
    finally:
        shutil.rmtree(workdir, ignore_errors=True)
    log.add("schedule", digest, sch.step, sch.switches)
    tprog.schedule_stats(stats, sch, case)
    spans = []
    for tid, row in enumerate(uris):
        for k, _ in enumerate(row):
            text = outputs[(tid, k)]
            log.add(tid, k, hashlib.sha256(text.encode("utf8")).hexdigest())
            spans.append((tid, k) + record[(tid, k)])
            stats.inc("generations")
            if text.startswith("EXC:"):
                stats.inc("generations_raising")
            if "EXC:RecursionError" in (text, alone[tid][k]):
                # recursion headroom differs between a traced thread and an
                # untraced main thread: no output to compare
                stats.inc("recursion_exhausted(no output)")
                continue
            if text != alone[tid][k]:
                return {
                    "invariant": "concurrent_output_differs_from_solo",
                    "op_index": [tid, k],
                    "detail": {
                        "thread": tid,
                        "document": k,
                        "concurrent": text[:1500],
                        "alone": alone[tid][k][:1500],
                        "steps": sch.step,
                        "preemptions": sch.switches,
                    },
                }
    overlapping = 0
    for a in spans:
        for b in spans:
            if a[0] < b[0] and a[2] <= b[3] and b[2] <= a[3]:
                overlapping += 1
    stats.inc("overlapping_generations", overlapping)
    rich = sum(
        1
        for docs in case["threads"]
        for item in docs
        if c09.is_nontrivial(item["document"], item.get("ext"))
    )
    stats["_nontrivial"] = int(overlapping >= 1 and rich >= 2)
    return None


def minimise(case, invariant, budget_s):
    return tprog.minimise_threads("C09T", case, invariant, budget_s, REDUCE_ROOTS)


def valid_case(case):
    if case.get("mode") == "shared_tree":
        return (
            isinstance(case.get("document"), dict)
            and isinstance(case.get("threads"), list)
            and all(
                isinstance(kinds, list) and all(k in ("py", "json") for k in kinds)
                for kinds in case["threads"]
            )
        )
    return isinstance(case.get("threads"), list) and all(
        isinstance(docs, list)
        and all(isinstance(item, dict) and isinstance(item.get("document"), dict) for item in docs)
        for docs in case["threads"]
    )


def fault_counts(stats):
    return {
        "preemptions": stats.get("preemptions", 0),
        "preemptions_at_write_sites": stats.get("preemptions_at_write_sites", 0),
        "overlapping_generations": stats.get("overlapping_generations", 0),
        "policies": {k.split(":", 1)[1]: v for k, v in stats.items() if k.startswith("policy:")},
    }


def sample_of(case):
    if case.get("mode") == "shared_tree":
        return {"mode": "shared_tree", "document": case["document"], "threads": case["threads"]}
    return {"threads": [[item["document"] for item in docs][:1] for docs in case["threads"]][:2], "policy": case.get("policy")}


def signature(case, violation):
    return {"invariant": violation["invariant"]}
