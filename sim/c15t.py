"""C15, concurrent mode (engine T): threads define subclasses of, and use,
already declared model classes at the same time.  Defining or using a subclass
must not change what a concurrent use of the parent (or of anything else)
returns, nor how the parent serialises afterwards.

case = {"prop": "C15", "initial": [class entries], "threads": [[op...]...], schedule fields}
op   = {"op": "use", "cid": c, "arg": {"v": json} | {"np": 1}} | {"op": "define", "entry": <class entry>}
"""
import copy

from statham.schema.constants import NotPassed

from sim import c15, common, gen, tprog
from sim.common import gen_perm, install_validator_order
from sim.world import Built, attempt, class_entry, norm

PROP = "C15"
ENGINE = "T"
RULE = (
    "concurrent mode: a family of 1-3 declared classes; 2-4 threads x 1-3 ops (define a subclass of an existing class / use a "
    "class) from Random(f'{VERIF_SEED}:C15T:{i}') under the baton-passing scheduler. Oracle: every use returns what the same "
    "thread program returns when run alone on a fresh family; afterwards json/python/module text of the initial classes is "
    "unchanged. Non-trivial run: >=1 subclass definition overlapping in time a use of its parent in another thread."
)
COMPONENTS = {
    "real": ["ObjectMeta.__new__, _Property.clone/bind, validators, serializers; CPython threads"],
    "seam": ["semaphores deciding which thread runs", "validator order"],
    "stub": ["reference: each thread program alone on a fresh family"],
}
ASSUMPTIONS = [
    "threads only add classes (unique names per thread) and validate; no concurrent reconfiguration here (C13 concurrent mode covers reassignment)",
]
REDUCE_ROOTS = (("threads",), ("initial",))


def prepare():
    tprog.prepare()


def _family(case):
    world = {"shared": {}, "classes": [], "root": {"k": "Element", "kw": {}}}
    live = Built(world)
    for entry in case["initial"]:
        world["classes"].append(copy.deepcopy(entry))
        live.get_class(entry["id"])
    return live


def _do(live, op):
    if op["op"] == "define":
        entry = copy.deepcopy(op["entry"])
        live.world["classes"].append(entry)
        live.get_class(entry["id"])
        return "defined", None
    value = NotPassed() if "np" in op["arg"] else copy.deepcopy(op["arg"]["v"])
    verdict, result, _ = attempt(live.classes[op["cid"]], value)
    return verdict, norm(result) if verdict == "accept" else None


def _factory(case, live, record):
    def factory(sch):
        fns = []
        for tid, ops in enumerate(case["threads"]):
            def fn(tid=tid, ops=ops):
                for idx, op in enumerate(ops):
                    start = sch.step
                    out = _do(live, op)
                    record[(tid, idx)] = (start, sch.step, out)

            fns.append(fn)
        return fns

    return factory


def gen_case(rng):
    perm = gen_perm(rng)
    install_validator_order(perm)
    swarm = gen.Swarm(
        rng,
        force=("Class", "inherit") + tuple(rng.sample(["explicit_required", "defaults", "pattern_props", "additional", "const_enum"], 2)),
        forbid=("shared",),
    )
    swarm.max_depth = min(swarm.max_depth, 2)
    world = {"shared": {}, "classes": [], "root": {"k": "Element", "kw": {}}}
    wg = gen.WorldGen(rng, swarm)
    wg.world = world
    plain = gen.WorldGen(rng, swarm)  # no classes in its world: cannot create cycles
    for _ in range(rng.randint(1, 3)):
        base = rng.choice(world["classes"])["id"] if world["classes"] and rng.random() < 0.6 else None
        entry = wg.new_class(1, base)
        entry["props"].setdefault(
            rng.choice(gen.PROP_NAMES), {"el": plain.element(2), "required": rng.random() < 0.5, "source": None}
        )
    initial = copy.deepcopy(world["classes"])
    case = {"prop": PROP, "part": "T", "perm": perm, "initial": initial}
    scratch = _family(case)
    n_threads = rng.choice([2, 2, 3, 4])
    threads = []
    # most activity concentrates on one parent: definitions of its subclasses
    # in some threads, uses of it in others
    focus = max(initial, key=lambda e: len(e.get("props", {})))["id"]
    for tid in range(n_threads):
        ops = []
        own = []
        for k in range(rng.randint(1, 3)):
            if rng.random() < 0.45:
                parents = [e["id"] for e in initial] + own
                base = focus if rng.random() < 0.5 else rng.choice(parents)
                before = len(world["classes"])
                entry = wg.new_class(1, base, name=f"T{tid}K{k}")
                del world["classes"][before:]
                entry["id"] = f"t{tid}c{k}"
                # references must stay inside the initial family
                ops.append({"op": "define", "entry": entry})
                own.append(entry["id"])
                if rng.random() < 0.6:
                    # use the new class right away (its inherited part must be its parent's)
                    ops.append({"op": "use", "cid": entry["id"], "arg": {"v": gen.random_json(rng)} if rng.random() < 0.3 else {"v": {}}})
            else:
                pool = [e["id"] for e in initial] * 2 + own
                cid = focus if rng.random() < 0.7 else rng.choice(pool)
                if cid in scratch.classes:
                    cls = scratch.classes[cid]
                    arg = {"np": 1} if rng.random() < 0.08 else {"v": gen.gen_value(rng, cls)}
                else:
                    arg = {"v": gen.random_json(rng)}
                ops.append({"op": "use", "cid": cid, "arg": arg})
        threads.append(ops)
    case["threads"] = threads
    case["first"] = rng.randrange(n_threads)
    case["policy"] = tprog.gen_policy(rng, n_threads, 400 * sum(len(t) for t in threads))
    case["policy_seed"] = rng.getrandbits(48)
    case["opcodes"] = tprog.gen_granularity(rng)
    try:
        for ops in threads:  # every program must be runnable alone
            alone = _family(case)
            for op in ops:
                _do(alone, op)
    except Exception:  # pylint: disable=broad-except
        # an illegal declaration (reserved name, dangling reference): degrade to uses only
        case["threads"] = [[op for op in ops if op["op"] == "use" and op["cid"] in scratch.classes] for ops in threads]
    tprog.record(case, _factory(case, _family(case), {}))
    return case


def reference_outcomes(case):
    install_validator_order(case.get("perm"))
    out = []
    for ops in case["threads"]:
        alone = _family(case)
        out.append([list(_do(alone, op)) for op in ops])
    return out


def exec_case(case, log, stats):
    install_validator_order(case.get("perm"))
    # each thread program alone - in another pristine process, so that here
    # the threads are the first to use the family
    reference = common.pristine("sim.c15t", "reference_outcomes", case)
    cold = _family(case)
    before = {e["id"]: c15.texts(cold.classes[e["id"]]) for e in case["initial"]}
    live = _family(case)
    record = {}
    sch, digest = tprog.replay(case, _factory(case, live, record))
    log.add("schedule", digest, sch.step, sch.switches)
    tprog.schedule_stats(stats, sch, case)
    if sch.deadlock:
        return {"invariant": "deadlock", "op_index": None, "detail": {"steps": sch.step}}
    spans = []
    for tid, ops in enumerate(case["threads"]):
        for idx, op in enumerate(ops):
            start, end, out = record[(tid, idx)]
            out = list(out)
            log.add(tid, idx, op["op"], op.get("cid") or op["entry"]["id"], out)
            spans.append((tid, op, start, end))
            stats.inc("define_ops" if op["op"] == "define" else "use_ops")
            if "escape:RecursionError" in (out[0], list(reference[tid][idx])[0]):
                continue
            if out != list(reference[tid][idx]):
                return {
                    "invariant": "concurrent_use_differs_from_alone",
                    "op_index": [tid, idx],
                    "detail": {
                        "op": op["op"],
                        "class": op.get("cid") or op["entry"]["id"],
                        "concurrent": out,
                        "alone": list(reference[tid][idx]),
                        "steps": sch.step,
                        "preemptions": sch.switches,
                    },
                }
    for entry in case["initial"]:
        after = c15.texts(live.classes[entry["id"]])
        for part in ("json", "python", "module"):
            if after[part] != before[entry["id"]][part]:
                return {
                    "invariant": "parent_not_isolated",
                    "op_index": None,
                    "detail": {"class": entry["id"], "part": part, "before": before[entry["id"]][part], "after": after[part]},
                }
    overlap = 0
    for tid, op, start, end in spans:
        if op["op"] != "define":
            continue
        base = op["entry"].get("base")
        for tid2, op2, start2, end2 in spans:
            if tid2 != tid and op2["op"] == "use" and op2["cid"] == base and start2 <= end and start <= end2:
                overlap += 1
    stats.inc("definitions_overlapping_a_use_of_the_parent", overlap)
    stats["_nontrivial"] = int(overlap >= 1)
    return None


def minimise(case, invariant, budget_s):
    return tprog.minimise_threads("C15T", case, invariant, budget_s, REDUCE_ROOTS)


def valid_case(case):
    try:
        defined = {e["id"] for e in case["initial"]}
        for e in case["initial"]:
            if e.get("base") and e["base"] not in defined:
                return False
        for ops in case["threads"]:
            own = set()
            for op in ops:
                if op["op"] == "define":
                    if op["entry"].get("base") not in defined | own:
                        return False
                    own.add(op["entry"]["id"])
                elif op["op"] == "use":
                    if op["cid"] not in defined | own:
                        return False
                    if not ("np" in op["arg"] or "v" in op["arg"]):
                        return False
                else:
                    return False
        return True
    except Exception:  # pylint: disable=broad-except
        return False


def fault_counts(stats):
    return {
        "preemptions": stats.get("preemptions", 0),
        "preemptions_at_write_sites": stats.get("preemptions_at_write_sites", 0),
        "definitions_overlapping_a_use_of_the_parent": stats.get("definitions_overlapping_a_use_of_the_parent", 0),
        "policies": {k.split(":", 1)[1]: v for k, v in stats.items() if k.startswith("policy:")},
    }


def sample_of(case):
    return {"initial": case["initial"], "threads": case["threads"], "policy": case.get("policy")}


def signature(case, violation):
    return {"invariant": violation["invariant"]}
