"""Determinism self-test of the simulator (bin/check selftest [N] [props...]).

For every engine H/T machine, N run indices are executed in two fresh
interpreters that differ in PYTHONHASHSEED, environment size and worker count
(1 vs 16), and once more in this process through the fork pool; the per-run
event digests must be identical.  For engine P one configuration is executed
twice.  Also probes that the validator-order seam is effective.
Exit 0 = deterministic, 2 = divergence (a harness bug, never a VIOLATION).
"""
import json
import os
import subprocess
import sys
import time

from sim import common, driver


def _child(prop, indices, hashseed, pad, workers):
    env = dict(os.environ)
    env.pop("STATHAM_VERIF_CHILD", None)
    env["STATHAM_VERIF_HASHSEED"] = str(hashseed)
    env["STATHAM_VERIF_PAD"] = "z" * pad
    # the runs themselves execute in forks of the zygote: vary *its* hash
    # seed and environment size as well
    env["STATHAM_VERIF_ZYG_HASHSEED"] = str(hashseed)
    if pad:
        env["STATHAM_VERIF_ZYG_PAD"] = "z" * pad
    env["VERIF_WORKERS"] = str(workers)
    proc = subprocess.run(
        [
            sys.executable,
            os.path.join(common.VERIF, "bin", "check"),
            "digest",
            prop,
            ",".join(str(i) for i in indices),
        ],
        env=env,
        capture_output=True,
        text=True,
        timeout=3600,
    )
    if proc.returncode != 0:
        raise common.HarnessError(proc.stdout[-1500:] + proc.stderr[-1500:])
    line = [l for l in proc.stdout.splitlines() if l.startswith("DIGESTS ")][-1]
    return json.loads(line[len("DIGESTS ") :])


def main(argv):
    common.import_statham()
    n = int(argv[0]) if argv else 64
    props = argv[1:] or list(driver.MACHINES)
    seed = common.base_seed()
    t0 = time.time()
    ok = True
    print(f"seam_validator_order={common.seam_probe()}")
    from concurrent.futures import ThreadPoolExecutor

    for prop in props:
        indices = list(range(n))
        chunks = [indices[i::8] for i in range(8)]
        with ThreadPoolExecutor(16) as pool:
            fut_a = [pool.submit(_child, prop, ch, 1, 0, 1) for ch in chunks]
            fut_b = [pool.submit(_child, prop, ch, 987654, 3000, 16) for ch in chunks]
            a, b = {}, {}
            for fut in fut_a:
                a.update(fut.result())
            for fut in fut_b:
                b.update(fut.result())
        # third opinion: this process, through the fork pool, other order
        mach = driver.machine(prop)
        common.PRELOAD[:] = (
            [(driver.MACHINES[prop], "prepare")] if hasattr(mach, "prepare") else []
        )
        common.start_zygotes()
        results, errors, _ = common.run_pool(
            driver._worker((prop, seed, 0)), reversed(indices)
        )
        if errors:
            print(f"{prop}: harness errors {errors[:1]}")
            ok = False
            continue
        c = {str(i): results[i]["digest"] for i in indices}
        diverged = [i for i in indices if not (a[str(i)] == b[str(i)] == c[str(i)])]
        print(
            f"{prop}: {n} seeds x 3 executions (hashseed 1/987654/0, env pad 0/3000, workers 1/16/pool): "
            f"{len(diverged)} divergent {diverged[:10]}"
        )
        ok = ok and not diverged
    print(f"selftest wall={time.time() - t0:.1f}s ok={ok}")
    return 0 if ok else 2
