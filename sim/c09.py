"""C09 - generation is deterministic across processes (engine P).

The "nodes" are fresh interpreters; a configuration is
(PYTHONHASHSEED, ASLR off via `setarch -R`, environment padding length,
allocator = pymalloc | malloc, PYTHONOPTIMIZE, order in which the interpreter
processes its batch of documents).
For every generated document every configuration must produce byte-identical
module text, JSON text and class names; a subset is also run through the real
command line and stdout compared byte for byte.
"""
import copy
import json
import os
import shutil
import subprocess
import sys
import tempfile
import time
from concurrent.futures import ThreadPoolExecutor

from sim import common
from sim.common import base_seed, load_known_findings, rng_for, write_evidence, write_replay

PROP = "C09"
PYTHON = sys.executable
CHILD = os.path.join(os.path.dirname(os.path.abspath(__file__)), "c09_child.py")
TIERS = {
    # documents, configurations, CLI documents, CLI configurations
    "quick": (400, 8, 16, 3),
    "thorough": (8000, 24, 300, 5),
}
RULE = (
    "documents generated from Random(f'{VERIF_SEED}:C09:{i}') (single- and multi-file, local and cross-file $ref, "
    "definitions, titled/untitled nested objects, and distinct object schemas with equal formatted titles spread over "
    "several composition keywords/definitions/property positions); every document is processed in K fresh interpreters, "
    "each a configuration (PYTHONHASHSEED, ASLR off, env padding) chosen so that all reachable iteration orders of the "
    "composition-keyword set are covered; all configurations must agree on sha256(module text), sha256(JSON text) and "
    "class names; a subset runs `python -m statham --input` per configuration and compares stdout bytes. A document is "
    "non-trivial when it contains >=2 distinct object schemas with equal formatted title reachable through >=2 different "
    "composition keywords/positions, or a repeated $ref target; distinct = distinct document digests among those."
)
ASSUMPTIONS = [
    "same CPython build for all configurations; other interpreter versions are not simulated",
    "address layout is controlled (setarch -R + env padding) when the sandbox permits, otherwise sampled",
    "documents that legitimately raise keep their exception class as the output to compare",
    "sampling, not enumeration",
]

TITLES = ["Item", "Thing", "thing", "Thing Model", "ThingModel", "item", "Node", "404", "!!!", "日本語", "item 2"]
PROPS = ["a", "b", "c", "value", "name", "x-1", "x_1", "class", "id", "$ref_like", "1st"]


# --------------------------------------------------------------------------
# documents
# --------------------------------------------------------------------------


class DocGen:
    def __init__(self, rng):
        self.rng = rng
        self.uid = 0
        self.features = set()
        self.max_depth = 3

    def scalar(self):
        rng = self.rng
        return copy.deepcopy(
            rng.choice(
                [
                    {"type": "string"},
                    {"type": "integer"},
                    {"type": "number", "minimum": 0},
                    {"type": "boolean"},
                    {"type": "null"},
                    {"type": "string", "maxLength": rng.randint(1, 9)},
                    {"type": ["string", "integer"]},
                    {"type": ["null", "boolean", "number"], "default": None},
                    {"type": "array", "items": {"type": "string"}, "uniqueItems": True},
                    {"type": "string", "enum": ["b", "a", "c"]},
                    {"const": {"k": [1, 2]}},
                    {"type": "string", "format": "uuid"},
                    {"type": "integer", "default": rng.randint(0, 9)},
                    {"enum": [1, "a", None]},
                    {},
                ]
            )
        )

    def obj(self, depth, title_mode=None):
        """An object schema that is distinct from every other (unique marker
        property), with a title drawn from a small colliding pool."""
        rng = self.rng
        self.uid += 1
        props = {f"p{self.uid}": self.scalar()}
        for _ in range(rng.randint(0, 2)):
            props[rng.choice(PROPS)] = self.node(depth + 1)
        out = {"type": "object", "properties": props}
        mode = title_mode or rng.choice(["pool", "pool", "none", "unique"])
        if mode == "pool":
            out["title"] = rng.choice(TITLES)
        elif mode == "unique":
            out["title"] = f"Uniq{self.uid}"
        if rng.random() < 0.5:
            # declared and undeclared names: undeclared required names become
            # synthesised properties, in the order the parser visits them
            pool = list(props) + ["req_a", "req_b", "req_c", "req-d", "zeta", "alpha"]
            out["required"] = rng.sample(pool, rng.randint(1, 4))
            if len(out["required"]) >= 2:
                self.features.add("multi_required")
        if rng.random() < 0.15:
            out["additionalProperties"] = rng.choice([False, self.scalar()])
        def sub(depth=depth):
            # object schemas (titles from the colliding pool) also live under
            # patternProperties / dependencies / items of the same element
            if depth < self.max_depth and rng.random() < 0.5:
                return self.obj(depth + 1, "pool" if rng.random() < 0.7 else None)
            return self.scalar()

        if rng.random() < 0.15:
            out["patternProperties"] = {
                pat: sub()
                for pat in rng.sample(["^x_", "_id$", "^[a-z]+$", "\\d", "[[:alpha:]]"], rng.randint(1, 3))
            }
        if rng.random() < 0.12:
            names = list(props)
            out["dependencies"] = {
                rng.choice(names): rng.sample(["req_a", "req_b", "zeta"] + names, 2),
                "dep_k": sub(),
            }
        if rng.random() < 0.08:
            out["propertyNames"] = {"maxLength": rng.randint(3, 9)}
        if rng.random() < 0.08:
            out["minProperties"] = rng.randint(0, 2)
        if rng.random() < 0.12:
            out["description"] = rng.choice(["some description", "café ☕ Größe", "описание"])
        return out

    def composition(self, depth):
        rng = self.rng
        keys = rng.sample(["anyOf", "oneOf", "allOf"], rng.choice([1, 2, 2, 3, 3]))
        out = {}
        mode = rng.choice(["pool", "none", "mixed"])
        for key in keys:
            branches = []
            for _ in range(rng.randint(1, 2)):
                if rng.random() < 0.75 and depth < self.max_depth:
                    branches.append(
                        self.obj(depth + 1, None if mode == "mixed" else mode)
                    )
                else:
                    branches.append(self.scalar())
            out[key] = branches
        if len(keys) >= 2:
            self.features.add("multi_keyword_composition")
        if rng.random() < 0.08:
            # a composition of trivial members, with a default
            out = {rng.choice(["allOf", "anyOf"]): [{}] * rng.randint(1, 2), "default": rng.choice(["n/a", 7, ["x"]])}
            self.features.add("trivial_composition_with_default")
            return out
        if rng.random() < 0.15:
            out["not"] = self.scalar()
        if rng.random() < 0.2:
            out["type"] = "object"
            out["title"] = rng.choice(TITLES)
        return out

    def node(self, depth):
        rng = self.rng
        if depth >= self.max_depth:
            return self.scalar()
        roll = rng.random()
        if roll < 0.3:
            return self.scalar()
        if roll < 0.55:
            return self.obj(depth)
        if roll < 0.68:
            return {"type": "array", "items": self.node(depth + 1)}
        if roll < 0.73:
            return {
                "type": "array",
                "items": [self.node(depth + 1), self.node(depth + 1)],
            }
        return self.composition(depth)

    def document(self):
        rng = self.rng
        root = self.obj(0, rng.choice(["pool", "unique", "none"])) if rng.random() < 0.7 else self.composition(0)
        ext = None
        if rng.random() < 0.6:
            defs = {}
            for _ in range(rng.randint(1, 3)):
                name = rng.choice(["item", "thing", "node", "Thing", "other"])
                defs[name] = self.obj(1) if rng.random() < 0.7 else self.composition(1)
            root["definitions"] = defs
            # reference definitions from property positions (repeated targets)
            target_holder = root.setdefault("properties", {}) if root.get("type") == "object" else None
            if target_holder is not None:
                names = list(defs)
                for idx in range(rng.randint(1, 3)):
                    target_holder[f"r{idx}"] = {"$ref": f"#/definitions/{rng.choice(names)}"}
                    self.features.add("local_ref")
                if rng.random() < 0.3:
                    target_holder["rl"] = {
                        "type": "array",
                        "items": {"$ref": f"#/definitions/{rng.choice(names)}"},
                    }
        if rng.random() < 0.25 and root.get("type") == "object":
            ext = {"definitions": {"shared": self.obj(1), "other": self.composition(1)}}
            root.setdefault("properties", {})
            root["properties"]["ext1"] = {"$ref": "EXT#/definitions/shared"}
            if rng.random() < 0.5:
                root["properties"]["ext2"] = {"$ref": "EXT#/definitions/other"}
            if rng.random() < 0.5:
                root["properties"]["ext3"] = {"$ref": "EXT#/definitions/shared"}
            self.features.add("cross_file_ref")
        if rng.random() < 0.03 and root.get("type") == "object":
            root.setdefault("properties", {})
            root["properties"]["self"] = {"$ref": "#"}
            self.features.add("cycle")
        if rng.random() < 0.03:
            root["if"] = {"type": "string"}
            self.features.add("unsupported_keyword")
        if rng.random() < 0.012 and root.get("type") == "object":
            # very deep non-object nesting: close to what the serialisers' own
            # recursion can take
            node = {"type": "string"}
            for level in range(rng.randint(60, 110)):
                node = {"properties": {f"n{level % 3}": node}}
            root.setdefault("properties", {})["deep"] = node
            self.features.add("deep_nesting")
        return root, ext


def _title_format(name):
    import re
    from itertools import chain

    words = list(filter(None, re.split("[^a-zA-Z0-9]", name)))
    segments = chain.from_iterable(
        [re.findall("[A-Z][^A-Z]*", word[0].upper() + word[1:]) for word in words]
    )
    return "".join(segment.title() for segment in segments)


def is_nontrivial(doc, ext):
    """>=2 object schemas sharing a (formatted / auto) title under >=2 different
    composition keywords or positions, or a repeated $ref target."""
    refs = {}
    titled = {}

    def walk(node, where, auto):
        if isinstance(node, dict):
            if "$ref" in node and isinstance(node["$ref"], str):
                refs[node["$ref"]] = refs.get(node["$ref"], 0) + 1
            if node.get("type") == "object" or "properties" in node:
                title = node.get("title")
                key = _title_format(title) if isinstance(title, str) else "auto:" + auto
                titled.setdefault(key, set()).add(where)
            for key, val in node.items():
                if key in ("anyOf", "oneOf", "allOf") and isinstance(val, list):
                    for idx, sub in enumerate(val):
                        walk(sub, where + "/" + key, auto + str(idx))
                elif key in ("properties", "definitions", "patternProperties") and isinstance(val, dict):
                    for name, sub in val.items():
                        walk(sub, where + "/" + key + "/" + name, name)
                elif key in ("items", "not", "additionalProperties"):
                    if isinstance(val, list):
                        for idx, sub in enumerate(val):
                            walk(sub, where + "/" + key, auto + "Item" + str(idx))
                    else:
                        walk(val, where + "/" + key, auto + "Item" if key == "items" else auto)
        return None

    walk(doc, "", "root")
    if ext:
        walk(ext, "ext", "ext")
    if any(count >= 2 for count in refs.values()):
        return True
    return any(len(places) >= 2 for places in titled.values())


def _titled_objects(node, out):
    if isinstance(node, dict):
        if isinstance(node.get("title"), str) and (
            node.get("type") == "object" or "properties" in node
        ):
            out.append(node)
        for val in node.values():
            _titled_objects(val, out)
    elif isinstance(node, list):
        for val in node:
            _titled_objects(val, out)


def gen_document(seed, index):
    """Document `index`.  Every 6th document is a *sibling* of its
    predecessor: identical except for the title of one nested object, so the
    two contain classes that are equal in name/properties/structure up to the
    name of a nested class - the situation in which any memo keyed on class
    equality or hash would hand one document the other's output."""
    if index % 6 == 5:
        doc, ext, feats = gen_document(seed, index - 1)
        rng = rng_for(seed, PROP, index, "sibling")
        doc = copy.deepcopy(doc)
        titled = []
        for sub in doc.get("properties", {}).values():
            _titled_objects(sub, titled)
        for sub in doc.get("definitions", {}).values():
            _titled_objects(sub, titled)
        if titled:
            victim = rng.choice(titled)
            victim["title"] = rng.choice([t for t in TITLES + ["Other", "Renamed"] if t != victim["title"]])
            feats = sorted(set(feats) | {"sibling_of_previous"})
        return doc, ext, feats
    rng = rng_for(seed, PROP, index)
    gen = DocGen(rng)
    doc, ext = gen.document()
    return doc, ext, sorted(gen.features)


def write_docs(workdir, docs):
    """docs: list of (id, doc, ext).  -> batch description."""
    batch = {"docs": []}
    for doc_id, doc, ext in docs:
        path = os.path.join(workdir, f"{doc_id}.json")
        text = json.dumps(doc)
        if ext is not None:
            ext_name = f"{doc_id}_ext.json"
            text = text.replace("EXT#", ext_name + "#")
            with open(os.path.join(workdir, ext_name), "w", encoding="utf8") as fh:
                json.dump(ext, fh)
        with open(path, "w", encoding="utf8") as fh:
            fh.write(text)
        batch["docs"].append({"id": doc_id, "uri": path + "#/"})
    return batch


# --------------------------------------------------------------------------
# configurations
# --------------------------------------------------------------------------

_SETARCH = None


def setarch_prefix():
    global _SETARCH
    if _SETARCH is None:
        try:
            arch = subprocess.run(["uname", "-m"], capture_output=True, text=True, check=True).stdout.strip()
            subprocess.run(["setarch", arch, "-R", "true"], check=True, capture_output=True, timeout=20)
            _SETARCH = ["setarch", arch, "-R"]
        except Exception:  # pylint: disable=broad-except
            _SETARCH = []
    return _SETARCH


def child_env(config):
    env = {
        "PATH": os.environ.get("PATH", "/usr/bin:/bin"),
        "PYTHONHASHSEED": str(config["hashseed"]),
        "PYTHONDONTWRITEBYTECODE": "1",
        "STATHAM_VERIF": "1",
        "HOME": os.environ.get("HOME", "/root"),
        "LANG": "C.UTF-8",
        "VERIF_PAD": "p" * config["pad"],
    }
    if config.get("malloc"):
        env["PYTHONMALLOC"] = config["malloc"]
    if config.get("optimize"):
        env["PYTHONOPTIMIZE"] = str(config["optimize"])
    if config.get("tz"):
        env["TZ"] = config["tz"]
    if config.get("pywarnings"):
        env["PYTHONWARNINGS"] = config["pywarnings"]
    if config.get("locale") == "C":
        # a process without a UTF-8 locale
        env["LANG"] = "C"
        env["LC_ALL"] = "C"
        env["PYTHONUTF8"] = "0"
        env["PYTHONCOERCECLOCALE"] = "0"
    return env


def keyword_order_of(hashseed):
    code = "print(','.join(set(('anyOf','oneOf','allOf','not'))-{'not'}))"
    out = subprocess.run(
        [PYTHON, "-c", code],
        env={"PYTHONHASHSEED": str(hashseed), "PATH": os.environ.get("PATH", "")},
        capture_output=True,
        text=True,
        timeout=60,
    )
    return out.stdout.strip()


def choose_configs(seed, count):
    """Hash seeds covering every reachable order of the keyword set, then
    random ones; each with a seed-chosen padding."""
    rng = rng_for(seed, PROP, -1, "configs")
    orders = {}
    candidates = list(range(1, 65))
    with ThreadPoolExecutor(16) as pool:
        for hashseed, order in zip(candidates, pool.map(keyword_order_of, candidates)):
            orders.setdefault(order, hashseed)
    chosen = list(orders.values())[:count]
    while len(chosen) < count:
        cand = rng.randint(65, 4_000_000_000)
        if cand not in chosen:
            chosen.append(cand)
    configs = [
        {
            "hashseed": hs,
            "pad": rng.choice([0, 17, 256, 1031, 4099, 8192, 20000, 50000, 100000]),
            "malloc": rng.choice(["", "", "malloc"]),
            "optimize": rng.choice([0, 0, 0, 2]),
            # the only clock-like input a process has without a fake-time
            # library: its time zone (UTC+14 and UTC-12 never share a date)
            "tz": rng.choice(["", "UTC", "LINT-14", "BIT12"]),
            "pywarnings": rng.choice(["", "", "error::FutureWarning"]),
            # what else the process has done is part of its configuration:
            # each interpreter processes its batch in its own order
            "order": rng.randint(1, 10**6),
        }
        for hs in chosen
    ]
    # two configurations whose local dates always differ
    if len(configs) >= 3:
        configs[1]["tz"] = "LINT-14"
        configs[2]["tz"] = "BIT12"
        configs[1]["pywarnings"] = "error::FutureWarning"
        configs[2]["pywarnings"] = ""
    return configs, len(orders)


def run_config(config, batch_path, full=False, timeout=1800):
    cmd = setarch_prefix() + [PYTHON, CHILD, common.REPO, batch_path]
    cmd.append("full" if full else "hash")
    cmd.append(str(config.get("order", 0)))
    proc = subprocess.run(
        cmd, env=child_env(config), capture_output=True, text=True, timeout=timeout
    )
    lines = [l for l in proc.stdout.splitlines() if l.startswith("RESULT ")]
    if proc.returncode != 0 or not lines:
        raise common.HarnessError(
            f"child failed for {config}: rc={proc.returncode} {proc.stderr[-2000:]}"
        )
    return json.loads(lines[-1][len("RESULT ") :])


def run_cli(config, uri):
    cmd = setarch_prefix() + [PYTHON, "-m", "statham", "--input", uri]
    env = child_env(config)
    env["PYTHONPATH"] = common.REPO
    proc = subprocess.run(cmd, env=env, capture_output=True, timeout=300, cwd="/")
    if proc.returncode != 0:
        tail = proc.stderr.decode("utf8", "replace").strip().splitlines()
        last = tail[-1] if tail else ""
        return "EXC:" + last.split(":")[0].split(".")[-1]
    return proc.stdout.decode("utf8", "replace")


# --------------------------------------------------------------------------
# comparison, minimisation, replay
# --------------------------------------------------------------------------


def run_cli_output(config, uri):
    """`python -m statham --input <uri> --output <file>` in a process without
    a UTF-8 locale for odd configurations: the bytes of the written file."""
    outdir = tempfile.mkdtemp(prefix="c09out_")
    try:
        target = os.path.join(outdir, "models.py")
        cmd = setarch_prefix() + [PYTHON, "-m", "statham", "--input", uri, "--output", target]
        env = child_env(dict(config, locale="C" if config.get("_cli_index", 0) % 2 else ""))
        env["PYTHONPATH"] = common.REPO
        proc = subprocess.run(cmd, env=env, capture_output=True, timeout=300, cwd="/")
        if proc.returncode != 0 or not os.path.exists(target):
            tail = proc.stderr.decode("utf8", "replace").strip().splitlines()
            return b"EXC:" + (tail[-1] if tail else "").split(":")[0].split(".")[-1].encode()
        with open(target, "rb") as fh:
            return fh.read()
    finally:
        shutil.rmtree(outdir, ignore_errors=True)


def disagreements(results):
    """results: list of child outputs (same batch).  -> {doc id: [parts]}"""
    bad = {}
    first = results[0]["docs"]
    for other in results[1:]:
        for doc_id, res in other["docs"].items():
            for part in ("py", "json", "names", "pe"):
                if res.get(part) != first[doc_id].get(part):
                    bad.setdefault(doc_id, set()).add(part)
    return {k: sorted(v) for k, v in bad.items()}


def _candidates(doc):
    """Single-step reductions of a JSON document."""
    out = []

    def walk(node, path):
        if isinstance(node, dict):
            for key in list(node):
                cand = copy.deepcopy(doc)
                parent = cand
                for step in path:
                    parent = parent[step]
                del parent[key]
                out.append(cand)
                walk(node[key], path + [key])
        elif isinstance(node, list):
            for idx in range(len(node)):
                if len(node) > 1:
                    cand = copy.deepcopy(doc)
                    parent = cand
                    for step in path:
                        parent = parent[step]
                    del parent[idx]
                    out.append(cand)
                walk(node[idx], path + [idx])

    walk(doc, [])
    return out


def minimise_doc(doc, ext, conf_a, conf_b, budget_s):
    """Greedy batch reduction: all single-step reductions of the current
    (document, external document) pair are evaluated by the two
    configurations in two process spawns per round.  -> (doc, ext)"""
    deadline = time.time() + budget_s
    current = {"doc": doc, "ext": ext}
    while time.time() < deadline:
        cands = [
            c
            for c in _candidates(current)
            if isinstance(c.get("doc"), dict)
            and (c.get("ext") is None or isinstance(c.get("ext"), dict))
        ][:600]
        if not cands:
            break
        workdir = tempfile.mkdtemp(prefix="c09min_")
        try:
            batch = write_docs(
                workdir,
                [(f"m{i}", c["doc"], c.get("ext")) for i, c in enumerate(cands)],
            )
            bpath = os.path.join(workdir, "batch.json")
            with open(bpath, "w", encoding="utf8") as fh:
                json.dump(batch, fh)
            res_a = run_config(conf_a, bpath)
            res_b = run_config(conf_b, bpath)
        finally:
            shutil.rmtree(workdir, ignore_errors=True)
        bad = disagreements([res_a, res_b])
        if not bad:
            break
        # smallest disagreeing candidate
        best = min(bad, key=lambda k: len(json.dumps(cands[int(k[1:])])))
        current = cands[int(best[1:])]
    return current["doc"], current.get("ext")


def run_orders(documents, configs, orders, full=False):
    """Run each configuration on the documents in its own explicit order.
    documents: [(id, doc, ext)]; orders: per configuration a list of ids."""
    by_id = {d[0]: d for d in documents}
    workdir = tempfile.mkdtemp(prefix="c09run_")
    try:
        write_docs(workdir, documents)
        results = []
        for idx, (conf, order) in enumerate(zip(configs, orders)):
            batch = {
                "docs": [
                    {"id": doc_id, "uri": os.path.join(workdir, f"{doc_id}.json") + "#/"}
                    for doc_id in order
                    if doc_id in by_id
                ]
            }
            bpath = os.path.join(workdir, f"batch_{idx}.json")
            with open(bpath, "w", encoding="utf8") as fh:
                json.dump(batch, fh)
            conf = dict(conf)
            conf["order"] = 0  # the order is explicit here
            results.append(run_config(conf, bpath, full=full))
    finally:
        shutil.rmtree(workdir, ignore_errors=True)
    return results


def target_disagrees(documents, configs, orders, target):
    res = run_orders(documents, configs, orders)
    first = res[0]["docs"].get(target)
    return any(r["docs"].get(target) != first for r in res[1:])


def replay(doc, path):
    """Re-run the disagreeing configurations on the stored documents, each
    configuration processing them in its recorded order."""
    case = doc["case"]
    documents = [(d["id"], d["document"], d.get("ext")) for d in case["documents"]]
    # decide in the same mode the check used (keeping the full texts changes
    # the allocation pattern of the child, which matters for address-dependent
    # bugs).  A few attempts: when the library itself starts threads, two runs
    # of one configuration need not agree with themselves.
    target = case["target"]
    differing = []
    for attempt_no in range(6):
        res = run_orders(documents, case["configs"], case["orders"], full=False)
        first = res[0]["docs"].get(target)
        differing = [
            part
            for part in ("py", "json", "names", "pe")
            if any(r["docs"].get(target, {}).get(part) != (first or {}).get(part) for r in res[1:])
        ]
        if differing:
            if attempt_no:
                print(f"replay: reproduced at attempt {attempt_no + 1} (outcome is not a function of the configuration alone)")
            break
    parts = doc.get("violation", {}).get("parts", [])
    if not differing and any(str(p).startswith("cli_") for p in parts):
        # the recorded disagreement was on the command line
        workdir = tempfile.mkdtemp(prefix="c09cli_")
        try:
            write_docs(workdir, [d for d in documents if d[0] == target])
            uri = os.path.join(workdir, f"{target}.json")
            files = [run_cli_output(conf, uri) for conf in case["configs"]]
            outs = [run_cli(conf, uri) for conf in case["configs"]]
        finally:
            shutil.rmtree(workdir, ignore_errors=True)
        if any(f != files[0] for f in files[1:]):
            differing.append("cli_output_file")
        if any(o != outs[0] for o in outs[1:]):
            differing.append("cli_stdout")
        res = [{"docs": {target: {"names": None}}} for _ in case["configs"]]
    if not differing:
        print(f"replay: configurations agree for {path}")
        return 0
    print(f"replay: configurations disagree on {differing} for document {target}")
    for conf, order, out in zip(case["configs"], case["orders"], res):
        print(f"--- {conf} order={order}: names={out['docs'].get(target, {}).get('names')}")
    print(f"VIOLATION property={PROP} replay={path}")
    return 1


def shuffled_ids(ids, order_seed):
    """The order in which a child with this `order` seed processes `ids`
    (same algorithm as c09_child.py)."""
    import random

    ids = list(ids)
    if order_seed:
        random.Random(order_seed).shuffle(ids)
    return ids


# --------------------------------------------------------------------------
# check
# --------------------------------------------------------------------------


def check(tier):
    t0 = time.time()
    seed = base_seed()
    n_docs, n_conf, n_cli, n_cli_conf = TIERS[tier]
    n_docs = int(os.environ.get("VERIF_RUNS", n_docs))
    configs, orders_reachable = choose_configs(seed, n_conf)
    workdir = tempfile.mkdtemp(prefix="c09_")
    try:
        return _check(tier, seed, n_docs, configs, orders_reachable, n_cli, n_cli_conf, workdir, t0)
    finally:
        shutil.rmtree(workdir, ignore_errors=True)


def _check(tier, seed, n_docs, configs, orders_reachable, n_cli, n_cli_conf, workdir, t0):
    docs = []
    feature_counts = {}
    nontrivial = {}
    for index in range(n_docs):
        doc, ext, feats = gen_document(seed, index)
        docs.append((f"d{index}", doc, ext))
        for feat in feats:
            feature_counts[feat] = feature_counts.get(feat, 0) + 1
        if is_nontrivial(doc, ext):
            nontrivial[f"d{index}"] = common.digest_of([doc, ext])
    # split into batches so all cores are busy: one (config, chunk) per task
    n_chunks = max(1, min(16, n_docs // 25))
    size = -(-len(docs) // n_chunks)
    # contiguous chunks: sibling documents are processed by the same interpreter
    chunks = [docs[i : i + size] for i in range(0, len(docs), size)]
    batch_paths = []
    for cidx, chunk in enumerate(chunks):
        batch = write_docs(workdir, chunk)
        bpath = os.path.join(workdir, f"batch{cidx}.json")
        with open(bpath, "w", encoding="utf8") as fh:
            json.dump(batch, fh)
        batch_paths.append(bpath)
    tasks = [(conf, bpath) for conf in configs for bpath in batch_paths]
    with ThreadPoolExecutor(16) as pool:
        outs = list(pool.map(lambda t: run_config(t[0], t[1]), tasks))
    per_config = []
    for cidx, conf in enumerate(configs):
        merged = {"docs": {}}
        for bidx in range(len(batch_paths)):
            out = outs[cidx * len(batch_paths) + bidx]
            merged["docs"].update(out["docs"])
            merged["keyword_order"] = out["keyword_order"]
            merged["validator_order"] = out["validator_order"]
        per_config.append(merged)
    # repeatability of one configuration (the simulator's own determinism)
    again = run_config(configs[0], batch_paths[0])
    first = outs[0]
    det_ok = again["docs"] == first["docs"] and again["validator_order"] == first["validator_order"]
    bad = disagreements(per_config)
    self_bad = set()
    if again["docs"] != first["docs"]:
        # every input of the interpreter is chosen by the simulator, so two runs
        # of one configuration can only differ if the library itself is
        # nondeterministic (its own threads, clocks, randomness): that is the
        # property failing, not the harness
        for doc_id, res in again["docs"].items():
            if res != first["docs"].get(doc_id):
                bad.setdefault(doc_id, []).append("same_configuration_twice")
                self_bad.add(doc_id)
    # CLI subset: real command line, stdout bytes
    cli_docs = [d for d in docs if d[0] in nontrivial][:n_cli] or docs[:n_cli]
    cli_tasks = [(conf, os.path.join(workdir, f"{d[0]}.json")) for d in cli_docs for conf in configs[:n_cli_conf]]
    with ThreadPoolExecutor(16) as pool:
        cli_out = list(pool.map(lambda t: run_cli(t[0], t[1]), cli_tasks))
    # the --output path: file bytes, half of the processes without a UTF-8 locale
    out_tasks = [
        (dict(conf, _cli_index=cidx), os.path.join(workdir, f"{d[0]}.json"))
        for d in cli_docs
        for cidx, conf in enumerate(configs[:n_cli_conf])
    ]
    with ThreadPoolExecutor(16) as pool:
        out_files = list(pool.map(lambda t: run_cli_output(t[0], t[1]), out_tasks))
    cli_bad = []
    for didx, d in enumerate(cli_docs):
        files_d = out_files[didx * n_cli_conf : (didx + 1) * n_cli_conf]
        if any(f != files_d[0] for f in files_d[1:]) and not any(f.startswith(b"EXC:") for f in files_d):
            cli_bad.append(d[0])
            bad.setdefault(d[0], []).append("cli_output_file")
        outs_d = cli_out[didx * n_cli_conf : (didx + 1) * n_cli_conf]
        if any(o != outs_d[0] for o in outs_d[1:]):
            cli_bad.append(d[0])
            bad.setdefault(d[0], []).append("cli_stdout")
        # a command-line run is a process that did nothing else: its output
        # must equal what the batch interpreters produced for this document
        batch_py = per_config[0]["docs"][d[0]].get("py", "")
        if not str(outs_d[0]).startswith("EXC:") and not batch_py.startswith("EXC:"):
            import hashlib

            if hashlib.sha256(outs_d[0].encode("utf8")).hexdigest() != batch_py:
                cli_bad.append(d[0])
                bad.setdefault(d[0], []).append("cli_vs_batch")
    # ---- violations ------------------------------------------------------
    findings = load_known_findings()
    exit_code = 0
    replays = []
    known_hit = []
    exc_docs = sum(
        1 for res in per_config[0]["docs"].values() if str(res.get("py", "")).startswith("EXC:")
    )
    by_id = {d[0]: d for d in docs}
    budget = 60 if tier == "quick" else 240
    chunk_of = {}
    for chunk in chunks:
        for d in chunk:
            chunk_of[d[0]] = chunk
    for doc_id in sorted(bad, key=lambda k: len(json.dumps(by_id[k][1:])))[:2]:
        _, doc, ext = by_id[doc_id]
        # two disagreeing configurations
        ref = per_config[0]["docs"][doc_id]
        other = next(
            (i for i, pc in enumerate(per_config) if pc["docs"][doc_id] != ref), None
        )
        if other is None:  # only the CLI disagreed, or the configuration with itself
            other = 0 if doc_id in self_bad else 1
        conf_a, conf_b = dict(configs[0], _cli_index=0), dict(configs[other], _cli_index=other)
        deadline = time.time() + budget
        cli_only = all(str(part).startswith("cli_") for part in bad[doc_id])
        if cli_only:
            # only the command line disagreed: the document alone, replayed
            # through the command line
            small, small_ext = doc, ext
            documents = [{"id": "replay", "document": doc, "ext": ext}]
            orders = [["replay"], ["replay"]]
            target = "replay"
            kind = "configuration (command line)"
        elif target_disagrees([(doc_id, doc, ext)], [conf_a, conf_b], [[doc_id], [doc_id]], doc_id):
            # depends on the interpreter configuration alone: minimise the document
            small, small_ext = minimise_doc(doc, ext, dict(conf_a, order=0), dict(conf_b, order=0), budget)
            documents = [{"id": "replay", "document": small, "ext": small_ext}]
            orders = [["replay"], ["replay"]]
            target = "replay"
            kind = "configuration"
        else:
            # depends on what else the interpreter processed before: keep the
            # target, delta-debug the rest of its batch
            chunk = chunk_of[doc_id]
            ids = [d[0] for d in chunk]
            orders = [shuffled_ids(ids, conf_a.get("order", 0)), shuffled_ids(ids, conf_b.get("order", 0))]
            others = [i for i in ids if i != doc_id]

            def test(kept, orders=orders, chunk=chunk):
                keep = set(kept) | {doc_id}
                docs_k = [d for d in chunk if d[0] in keep]
                ords = [[i for i in o if i in keep] for o in orders]
                return target_disagrees(docs_k, [conf_a, conf_b], ords, doc_id)

            from sim.minimise import ddmin_list

            if test(others):
                kept = ddmin_list(others, test, deadline)
                if not test(kept):
                    kept = others
            else:
                kept = others
            keep = set(kept) | {doc_id}
            documents = [
                {"id": d[0], "document": d[1], "ext": d[2]} for d in chunk if d[0] in keep
            ]
            orders = [[i for i in o if i in keep] for o in orders]
            target = doc_id
            small, small_ext = doc, ext
            kind = "history"
        replay_doc = {
            "property": PROP,
            "engine": "P",
            "seed": seed,
            "run": int(doc_id[1:]),
            "violation": {
                "invariant": "output_differs_across_configurations",
                "depends_on": kind,
                "parts": bad[doc_id],
            },
            "case": {
                "documents": documents,
                "orders": orders,
                "target": target,
                "configs": [conf_a, conf_b],
            },
            "failing_docs": sorted(bad)[:50],
        }
        path = write_replay(PROP, f"{seed}-{doc_id}", replay_doc)
        proc = subprocess.run(
            [PYTHON, os.path.join(common.VERIF, "bin", "check"), "replay", path],
            capture_output=True,
            text=True,
            timeout=900,
        )
        if proc.returncode != 1:
            print(f"HARNESS-ERROR: non-replayable violation {path}\n{proc.stdout[-1500:]}{proc.stderr[-1500:]}")
            return 2
        sig = {"invariant": "output_differs_across_configurations"}
        entry = None
        for cand in findings.get("open", []):
            if cand.get("property") == PROP and all(
                sig.get(k) == v for k, v in cand.get("match", {}).items()
            ):
                entry = cand
        if entry is not None:
            print(f"KNOWN-FINDING: property={PROP} {entry['what']} (replay={path})")
            known_hit.append(entry.get("id", entry["what"]))
            continue
        print(
            f"violation: {PROP} {len(bad)} document(s) differ across configurations (depends on {kind}); "
            f"minimised: {len(documents)} document(s), target: {json.dumps(small)[:400]} ext: {json.dumps(small_ext)[:200]} parts={bad[doc_id]}"
        )
        print(f"VIOLATION property={PROP} replay={path}")
        replays.append(path)
        exit_code = 1
    # ---- evidence --------------------------------------------------------
    wall = time.time() - t0
    orders = sorted({",".join(pc["keyword_order"]) for pc in per_config})
    layouts = sorted({pc["validator_order"] for pc in per_config})
    samples = [
        {"document": by_id[k][1], "ext": by_id[k][2]} for k in list(nontrivial)[:2]
    ] or [{"document": docs[0][1]}]
    coverage = {
        "evaluations": n_docs * len(configs),
        "documents": n_docs,
        "configurations": len(configs),
        "distinct_nontrivial": len(set(nontrivial.values())),
        "rule": RULE,
        "samples": samples,
        "runs_per_hour": int(n_docs * len(configs) / wall * 3600),
        "seeds": {"base": seed, "first_run": 0, "last_run": n_docs - 1},
        "logical_steps": n_docs * len(configs),
        "simulated_time_note": "no clock in this code base; one step = one document processed by one simulated interpreter",
        "fault_counts": {
            "configurations": [dict(c) for c in configs],
            "keyword_orders_reached": orders,
            "keyword_orders_reachable_in_probe(64 seeds)": orders_reachable,
            "address_layouts_reached(validator-order digests)": len(layouts),
            "aslr_controlled": bool(setarch_prefix()),
        },
        "probes": {
            "document_features": feature_counts,
            "documents_raising": exc_docs,
            "cli_documents": len(cli_docs),
            "cli_runs": len(cli_tasks),
            "cli_disagreements": len(cli_bad),
            "documents_disagreeing": len(bad),
        },
        "components": {
            "real": ["statham/* from /repo working tree", "json_ref_dict", "CPython interpreters (one per configuration)", "python -m statham command line"],
            "seam": ["PYTHONHASHSEED", "setarch -R (ASLR off)", "environment padding", "PYTHONMALLOC", "PYTHONOPTIMIZE", "TZ", "PYTHONWARNINGS=error::FutureWarning", "non-UTF-8 locale for --output runs"],
            "stub": [],
        },
        "determinism_sample": {"same_configuration_twice_identical": det_ok},
        "known_findings_hit": known_hit,
        "replays": replays,
    }
    # ---- concurrent mode (engine T): threads of one process -----------------
    from sim import driver

    common.import_statham()
    t_code, t_cov, t_reported = driver.check_part(PROP, "C09T", tier)
    if t_code == 2:
        return 2
    exit_code = max(exit_code, t_code)
    s_code, s_cov, s_reported = driver.check_part(PROP, "C09S", tier)
    if s_code == 2:
        return 2
    exit_code = max(exit_code, s_code)
    t_reported += s_reported
    coverage["parts"] = {"C09T": t_cov, "C09S": s_cov}
    coverage["evaluations"] += t_cov["evaluations"] + s_cov["evaluations"]
    coverage["distinct_nontrivial"] += t_cov["distinct_nontrivial"] + s_cov["distinct_nontrivial"]
    coverage["rule"] = "[P] " + RULE + " || [C09T] " + t_cov["rule"] + " || [C09S] " + s_cov["rule"]
    coverage["samples"] = coverage["samples"] + t_cov["samples"][:1] + s_cov["samples"][:1]
    coverage["logical_steps"] += t_cov["logical_steps"] + s_cov["logical_steps"]
    wall = time.time() - t0
    from sim import c09t

    write_evidence(
        PROP, tier, seed, coverage, wall, len(replays) + t_reported,
        ASSUMPTIONS + c09t.ASSUMPTIONS,
    )
    print(
        f"C09 {tier}: documents={n_docs} configurations={len(configs)} nontrivial_distinct="
        f"{coverage['distinct_nontrivial']} disagreeing={len(bad)} keyword_orders={len(orders)} "
        f"cli_runs={len(cli_tasks)} wall={wall:.1f}s"
    )
    return exit_code
