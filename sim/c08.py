"""C08 - validation is pure and repeatable (engine H).

case = {"prop": "C08", "world": <world>, "perm": [...], "ops": [...]}
op   = {"op": "call", "path": <path>, "arg": {"v": json} | {"np": 1} | {"res": j}}
     | {"op": "repeat", "j": k}
"""
import copy

from statham.schema.constants import NotPassed

from sim import common, gen
from sim.common import HarnessError, install_validator_order, gen_perm
from sim.world import (
    abort_site,
    attempt,
    build,
    diff_snap,
    equal_both_ways,
    live_nodes,
    live_resolve,
    norm,
    snapshot,
)

PROP = "C08"
ENGINE = "H"
RULE = (
    "run i = world + op list generated from Random(f'{VERIF_SEED}:C08:{i}'): a swarm-configured "
    "element tree (hand-built spec through the public constructors, or a parser-built tree) and 4-25 "
    "explicit ops (call(path,value) / call(path,NotPassed) / feed(result of call j) / repeat(j)); after "
    "every op the four C08 invariants are checked (input unchanged, tree snapshot+equality unchanged, "
    "repeat equal, same outcome on a brand-new build). A run is non-trivial when it has >=1 accepted "
    "call, >=1 rejected call and >=1 repeat; distinct = distinct SHA-256 event digests (op, path, "
    "verdict, normalised result per step) among the non-trivial runs."
)
COMPONENTS = {
    "real": ["statham/* from /repo working tree", "json/copy stdlib"],
    "seam": ["statham.schema.validation._all_subclasses replaced by a seed-chosen fixed permutation (validator order)"],
    "stub": [],
}
ASSUMPTIONS = [
    "a rejected value (ValidationError/TypeError raised at arbitrary depth) is the only abort injected; asynchronous exceptions are outside the property",
    "worlds are bounded: depth<=3, <=6 properties per object, <=4 classes, <=25 ops",
    "`_Property` wrappers are never reused between owners (documented as belonging to one object)",
    "sampling, not enumeration",
]
INVARIANTS = ("input_changed", "tree_changed", "repeat_differs", "fresh_differs")


# --------------------------------------------------------------------------
# generation
# --------------------------------------------------------------------------

SCHEMAS_FOR_PARSER = None


def gen_parsed_schema(rng):
    """A JSON-schema document whose parse gives the parser-shaped trees:
    untyped elements carrying both `required` and `properties`, AllOf-wrapped
    classes with defaults, multi-typed anyOf."""

    def scalar():
        return rng.choice(
            [
                {"type": "string"},
                {"type": "string", "maxLength": rng.choice([1, 2, 3])},
                {"type": "integer", "minimum": rng.choice([0, 1, 2])},
                {"type": "number"},
                {"type": "boolean"},
                {"type": ["string", "null"]},
                {"type": "integer", "default": rng.choice([0, 1, 5])},
                {},
            ]
        )

    def obj(depth, titled):
        names = rng.sample(gen.PROP_NAMES, rng.randint(1, 3))
        props = {}
        for name in names:
            roll = rng.random()
            if depth < 2 and roll < 0.25:
                props[name] = obj(depth + 1, rng.random() < 0.6)
            elif depth < 2 and roll < 0.4:
                props[name] = {"type": "array", "items": obj(depth + 1, True)}
            else:
                props[name] = scalar()
        out = {"properties": props}
        if rng.random() < 0.7:
            pool = names + rng.sample(gen.PROP_NAMES, 1)
            out["required"] = rng.sample(pool, rng.randint(1, min(2, len(pool))))
        if titled:
            out["type"] = "object"
            out["title"] = rng.choice(gen.CLASS_NAMES) + str(rng.randint(0, 99))
            if rng.random() < 0.2:
                out["default"] = {names[0]: rng.choice(gen.INTS)}
        if rng.random() < 0.25:
            out["additionalProperties"] = rng.choice([False, scalar()])
        if rng.random() < 0.2:
            out["patternProperties"] = {rng.choice(gen.PATTERNS)[0]: scalar()}
        if rng.random() < 0.15:
            key = rng.choice(names)
            out["dependencies"] = {key: [rng.choice(gen.PROP_NAMES)]}
        return out

    root = obj(0, rng.random() < 0.5)
    roll = rng.random()
    if roll < 0.2:
        root = {"anyOf": [root, scalar()]}
    elif roll < 0.35:
        root = {"allOf": [root, obj(1, False)]}
    elif roll < 0.45:
        root = {"type": "array", "items": root}
    return root


def gen_case(rng, force=(), forbid=()):
    perm = gen_perm(rng)
    if rng.random() < 0.2:
        world = {"parsed": gen_parsed_schema(rng)}
        swarm_desc = {"parsed": True}
    else:
        world, swarm = gen.gen_world(rng, force, forbid)
        swarm_desc = swarm.describe()
    install_validator_order(perm)
    built = build(world)
    nodes = live_nodes(built)
    # prefer interesting targets: root, classes, then anything
    weights = []
    for path, node in nodes:
        w = 1
        if not path:
            w = 6
        elif path[0][0] == "class" and len(path) == 1:
            w = 4
        weights.append(w)
    n_ops = rng.choice([4, 6, 8, 10, 14, 18, 25])
    # rarely the whole history runs far down the caller's stack (recursion
    # headroom is part of the environment a library is called in)
    caller_depth = rng.choice([250, 500, 700, 850]) if rng.random() < 0.04 else 0
    p_deep = 0.3 if caller_depth else rng.choice([0.0, 0.0, 0.0, 0.02])
    p_wrap = rng.choice([0.0, 0.0, 0.1, 0.3])
    p_np = rng.choice([0.0, 0.05, 0.15])
    p_repeat = rng.choice([0.1, 0.2, 0.35])
    p_feed = rng.choice([0.0, 0.1, 0.2])
    ops = []
    calls = []  # indices of call ops
    scratch = build(world)
    accepted = []
    for _ in range(n_ops):
        roll = rng.random()
        if calls and roll < p_repeat:
            ops.append({"op": "repeat", "j": rng.choice(calls)})
            continue
        path, node = rng.choices(nodes, weights)[0]
        if accepted and rng.random() < p_feed:
            arg = {"res": rng.choice(accepted)}
        elif rng.random() < p_np:
            arg = {"np": 1}
        elif rng.random() < p_deep:
            val = gen.deep_value(rng)
            if getattr(node, "properties", None) is not None:
                val = {"zz": val}
            arg = {"v": val}
        else:
            # steer towards a mix of accepted and rejected values
            want_accept = rng.random() < 0.5
            val = gen.gen_value(rng, node)
            for _try in range(3):
                verdict, _, _ = attempt(live_resolve(scratch, path), copy.deepcopy(val))
                if (verdict == "accept") == want_accept:
                    break
                val = gen.gen_value(rng, node)
            arg = {"v": val}
            if rng.random() < p_wrap:
                arg["wrap"] = rng.choice(["defaultdict", "OrderedDict", "subclass"])
        ops.append({"op": "call", "path": path, "arg": arg})
        calls.append(len(ops) - 1)
        if "v" in arg:
            verdict, _, _ = attempt(live_resolve(scratch, path), copy.deepcopy(arg["v"]))
            if verdict == "accept":
                accepted.append(len(ops) - 1)
    return {
        "prop": PROP,
        "world": world,
        "perm": perm,
        "ops": ops,
        "swarm": swarm_desc,
        "pristine": rng.random() < 0.3,
        "caller_depth": caller_depth,
    }


def reference_call(world, ops, call_idx, perm):
    """Outcome of call `call_idx` (with the chain of calls its fed argument
    depends on) on a fresh tree in a process that never validated anything."""
    install_validator_order(perm)
    tree = _Tree(world)
    snapshot(tree.built)
    value = _materialise(tree, ops, call_idx, world)
    verdict, result, _ = attempt(live_resolve(tree.built, ops[call_idx]["path"]), value)
    return verdict, norm(result) if verdict == "accept" else None


# --------------------------------------------------------------------------
# execution
# --------------------------------------------------------------------------


class _Tree:
    """A build plus the per-call results obtained on it (for `res` args)."""

    def __init__(self, world):
        self.built = build(world)
        self.results = {}  # op index -> (verdict, result)


def _resolve_op(ops, index):
    """Follow repeat links: -> index of the underlying call op."""
    seen = 0
    while ops[index]["op"] == "repeat":
        index = ops[index]["j"]
        seen += 1
        if seen > len(ops):
            raise HarnessError("repeat cycle")
    return index


class DictSub(dict):
    """A plain dict subclass."""


class ListSub(list):
    """A plain list subclass."""


def wrap_value(value, kind):
    """The same data in another container type (dict/list subclasses are
    dicts and lists as far as JSON Schema is concerned)."""
    import collections

    if isinstance(value, dict):
        inner = {k: wrap_value(v, kind) for k, v in value.items()}
        if kind == "defaultdict":
            return collections.defaultdict(lambda: 0, inner)
        if kind == "OrderedDict":
            return collections.OrderedDict(inner)
        if kind == "subclass":
            return DictSub(inner)
        return inner
    if isinstance(value, list):
        inner = [wrap_value(v, kind) for v in value]
        return ListSub(inner) if kind == "subclass" else inner
    return value


def _at_depth(fn, depth):
    """Call fn() from `depth` additional frames down the stack."""
    if depth <= 0:
        return fn()
    return _at_depth(fn, depth - 1)


def _materialise(tree, ops, call_index, world):
    """Value for call op `call_index` on `tree` (recursively for fed results)."""
    arg = ops[call_index]["arg"]
    if "np" in arg:
        return NotPassed()
    if "v" in arg:
        value = copy.deepcopy(arg["v"])
        if arg.get("wrap"):
            value = wrap_value(value, arg["wrap"])
        return value
    src = _resolve_op(ops, arg["res"])
    if src not in tree.results:
        val = _materialise(tree, ops, src, world)
        target = live_resolve(tree.built, ops[src]["path"])
        verdict, result, _ = attempt(target, val)
        tree.results[src] = (verdict, result)
    verdict, result = tree.results[src]
    if verdict != "accept":
        return NotPassed()
    return result


def valid_case(case):
    """Structural validity (used by the minimiser after deleting ops)."""
    ops = case["ops"]
    for idx, op in enumerate(ops):
        if op["op"] == "repeat":
            if not (0 <= op["j"] < idx):
                return False
        elif "res" in op["arg"] and not (0 <= op["arg"]["res"] < idx):
            return False
    return True


def exec_case(case, log, stats):
    """Run the history; -> None or a violation dict.  Pure in (case, code)."""
    world, ops = case["world"], case["ops"]
    install_validator_order(case.get("perm"))
    live = _Tree(world)
    fresh0 = build(world)
    snap0 = snapshot(live.built)
    if snapshot(fresh0) != snap0:
        stats.inc("degenerate_world")
        log.add("degenerate")
        return None
    if snapshot(live.built) != snap0 or snapshot(fresh0) != snap0:
        # the observers themselves (repr / serialisers) changed what they
        # observe: that is not validation's doing (the serialiser-order part
        # of C09 judges it); nothing about the tree can be attributed here
        stats.inc("observer_not_idempotent")
        log.add("observer_not_idempotent")
        return None
    eq0 = equal_both_ways(live.built, fresh0)
    if eq0:
        stats.inc("eq_baseline_nonempty")
    first_outcome = {}  # underlying call index -> (verdict, norm, live result)
    n_accept = n_reject = n_repeat = 0
    for idx, op in enumerate(ops):
        call_idx = _resolve_op(ops, idx)
        call = ops[call_idx]
        is_repeat = op["op"] == "repeat"
        target = live_resolve(live.built, call["path"])
        value = _materialise(live, ops, call_idx, world)
        before = norm(value)
        depth_here = case.get("caller_depth", 0)
        if depth_here:
            verdict, result, exc = attempt(_at_depth, lambda: target(value), depth_here)
        else:
            verdict, result, exc = attempt(target, value)
        nres = norm(result) if verdict == "accept" else None
        if verdict == "escape:RecursionError":
            # the stack ran out: no verdict at all, nothing to compare
            stats.inc("recursion_exhausted(no verdict)")
            log.add(idx, "no_verdict")
            continue
        log.add(idx, op["op"], call["path"], verdict, nres)
        stats.inc("calls")
        depth = len(call["path"])
        if verdict == "accept":
            n_accept += 1
            stats.inc("accepted")
        elif verdict == "reject":
            n_reject += 1
            stats.inc("rejected")
            stats.setdefault("abort_sites", {})
            site = abort_site(exc)
            stats["abort_sites"][site] = stats["abort_sites"].get(site, 0) + 1
        else:
            stats.inc(verdict)
        if "np" in call["arg"]:
            stats.inc("notpassed_calls")
        if call["arg"].get("wrap"):
            stats.inc("inputs_in_other_container_types")
        if depth_here:
            stats.inc("calls_from_deep_caller_stack")
        if "res" in call["arg"]:
            stats.inc("fed_results")
        # 1. input unchanged
        if norm(value) != before:
            return {
                "invariant": "input_changed",
                "op_index": idx,
                "detail": {"before": before, "after": norm(value)},
            }
        # 2. tree unchanged
        snap = snapshot(live.built)
        if snap != snap0:
            return {
                "invariant": "tree_changed",
                "op_index": idx,
                "detail": {"changed": diff_snap(snap0, snap), "kind": "text"},
            }
        eq_now = equal_both_ways(live.built, fresh0)
        if eq_now != eq0:
            return {
                "invariant": "tree_changed",
                "op_index": idx,
                "detail": {"changed": eq_now, "kind": "equality"},
            }
        # 3. repeat gives the same verdict and an equal result
        if call_idx in first_outcome:
            n_repeat += 1
            stats.inc("repeats")
            verdict0, nres0, result0 = first_outcome[call_idx]
            same = verdict0 == verdict and nres0 == nres
            if same and verdict == "accept":
                try:
                    same = bool(result0 == result) or (
                        result0 != result0  # NaN-like: fall back to norm
                    )
                except Exception:  # pylint: disable=broad-except
                    same = False
            if not same:
                return {
                    "invariant": "repeat_differs",
                    "op_index": idx,
                    "detail": {
                        "first": [verdict0, nres0],
                        "now": [verdict, nres],
                    },
                }
        else:
            first_outcome[call_idx] = (verdict, nres, result)
            live.results.setdefault(call_idx, (verdict, result))
        # 4. same outcome as on a brand-new tree (observed once, like the live
        #    one, so that only validation history distinguishes the two)
        fresh = _Tree(world)
        snapshot(fresh.built)
        fvalue = _materialise(fresh, ops, call_idx, world)
        fverdict, fresult, _ = attempt(
            live_resolve(fresh.built, call["path"]), fvalue
        )
        fnres = norm(fresult) if fverdict == "accept" else None
        if (fverdict, fnres) != (verdict, nres):
            return {
                "invariant": "fresh_differs",
                "op_index": idx,
                "detail": {"live": [verdict, nres], "fresh": [fverdict, fnres]},
            }
        if case.get("pristine"):
            pverdict, pnres = common.pristine(
                "sim.c08", "reference_call", world, ops, call_idx, case.get("perm")
            )
            stats.inc("pristine_process_references")
            if (pverdict, pnres) != (verdict, nres):
                return {
                    "invariant": "fresh_differs",
                    "op_index": idx,
                    "detail": {
                        "live": [verdict, nres],
                        "pristine_process": [pverdict, pnres],
                        "same_process_fresh_tree": [fverdict, fnres],
                    },
                }
        if depth >= 1:
            stats.inc("nested_target_calls")
    stats["_nontrivial"] = int(n_accept >= 1 and n_reject >= 1 and n_repeat >= 1)
    return None


# --------------------------------------------------------------------------
# known-finding signatures
# --------------------------------------------------------------------------


def fault_counts(stats):
    return {
        "rejected_calls(aborts)": stats.get("rejected", 0),
        "abort_sites": stats.get("abort_sites", {}),
        "notpassed_calls": stats.get("notpassed_calls", 0),
        "fed_results": stats.get("fed_results", 0),
        "validator_permutations": "one per run",
    }


def sample_of(case):
    return {"world": case["world"], "ops": case["ops"][:6], "perm": case["perm"]}


def signature(case, violation):
    """Structural signature used to match known findings."""
    return {"invariant": violation["invariant"]}
