"""C14 - concurrent validation equals sequential validation (engine T).

case = {"prop": "C14", "world": <world>, "perm": [...], "threads": [[call, ...], ...],
        "opcodes": bool, "segments": [[tid, steps], ...], "policy": {...}}
call = {"path": <path>, "arg": {"v": json} | {"np": 1}}

gen_case draws everything (world, calls, policy parameters) from the run's
PRNG, executes the run once under the drawn policy and stores the *recorded*
schedule in the case, so exec_case(case) is a pure replay of explicit data.
"""
import copy
import json
import random

from statham.schema.constants import NotPassed

from sim import common, gen, sched
from sim.common import gen_perm, install_validator_order, HarnessError
from sim.world import (
    abort_site,
    attempt,
    build,
    diff_snap,
    equal_both_ways,
    live_nodes,
    live_resolve,
    norm,
    snapshot,
)

PROP = "C14"
ENGINE = "T"
RULE = (
    "run i = shared tree + 2-4 threads x 1-3 validation calls + schedule policy, all from Random(f'{VERIF_SEED}:C14:{i}'); "
    "real threads run under a baton-passing scheduler whose pre-emption points are the call/line/return (10% of thorough "
    "runs: every opcode) trace events inside /repo/statham frames; policies: uniform switch probability, early-burst, write-site "
    "biased, PCT priorities with d change points. Oracle: every call returns the same (verdict, normalised result) as "
    "when run alone on a fresh build; the shared tree's snapshot and equality are unchanged afterwards; inputs "
    "unchanged. Non-trivial run: >=1 context switch at which the pre-empted and the resumed thread both have a frame "
    "operating on the same shared element/property object, and >=1 rejected call; distinct = distinct schedule digests "
    "(SHA-256 over every (thread, file, line, event) step) among those."
)
COMPONENTS = {
    "real": ["statham/* from /repo working tree", "CPython threads (threading.Thread), sys.settrace"],
    "seam": ["semaphores deciding which thread runs", "validator order"],
    "stub": [],
}
ASSUMPTIONS = [
    "pre-emption only at trace events inside /repo/statham frames; code outside the package (re, warnings, dateutil, inspect) runs atomically",
    "CPython's real switch points inside a line are covered only at opcode granularity",
    "free-threaded builds are not modelled",
    "<=4 threads, <=3 calls each, <=60k steps per run",
    "sampling of schedules, not enumeration",
]
REDUCE_ROOTS = (("world",), ("threads",))

_SITES = None


def prepare():
    global _SITES
    _SITES = sched.write_sites()


def _sites():
    if _SITES is None:
        prepare()
    return _SITES


# --------------------------------------------------------------------------
# running a case under a scheduler
# --------------------------------------------------------------------------


def _value(arg):
    if "np" in arg:
        return NotPassed()
    return copy.deepcopy(arg["v"])


def _run(case, scheduler, built):
    """Run the threads of `case` on `built` under `scheduler`.
    -> per-thread list of (verdict, norm result, exc, input unchanged)"""
    outcomes = [[None] * len(calls) for calls in case["threads"]]
    shared_objects = {}

    def intern(val):
        """Equal lists/dicts become one object, at every nesting level."""
        if isinstance(val, list):
            val = [intern(v) for v in val]
        elif isinstance(val, dict):
            val = {k: intern(v) for k, v in val.items()}
        else:
            return val
        key = json.dumps(val, sort_keys=True, default=repr)
        return shared_objects.setdefault(key, val)

    def value_of(arg):
        # "share_values": calls whose values are equal receive the very same
        # input object, also across threads; "share_parts": equal sub-lists and
        # sub-dicts of *different* values are one object too (validation must
        # not care: it never writes to its input)
        if "np" in arg or not (case.get("share_values") or case.get("share_parts")):
            return _value(arg)
        if case.get("share_parts"):
            return intern(_value(arg))
        key = json.dumps(arg["v"], sort_keys=True)
        if key not in shared_objects:
            shared_objects[key] = _value(arg)
        return shared_objects[key]

    def worker(tid):
        calls = case["threads"][tid]
        targets = [live_resolve(built, call["path"]) for call in calls]
        values = [value_of(call["arg"]) for call in calls]
        befores = [norm(val) for val in values]

        def fn():
            for idx, target in enumerate(targets):
                verdict, result, exc = attempt(target, values[idx])
                outcomes[tid][idx] = (verdict, result, exc)

        def finish():
            for idx in range(len(calls)):
                verdict, result, exc = outcomes[tid][idx]
                outcomes[tid][idx] = (
                    verdict,
                    norm(result) if verdict == "accept" else None,
                    exc,
                    norm(values[idx]) == befores[idx],
                )

        return fn, finish

    pairs = [worker(tid) for tid in range(len(case["threads"]))]
    digest = scheduler.run([p[0] for p in pairs], first=case.get("first", 0))
    if scheduler.deadlock:
        return None, digest
    for _, finish in pairs:
        finish()
    return outcomes, digest


def make_policy(desc, rng):
    kind = desc["kind"]
    if kind == "uniform":
        return sched.Policy("uniform", rng, p=desc["p"])
    if kind == "sites":
        return sched.Policy("sites", rng, p=desc["p"], p_site=desc["p_site"], sites=_sites(), window=desc.get("window", 3))
    if kind == "burst":
        return sched.Policy("burst", rng, p=desc["p"], p_early=desc["p_early"], k=desc["k"])
    if kind == "pct":
        prio = {int(k): v for k, v in desc["prio"].items()}
        return sched.Policy("pct", rng, prio=prio, change_points=set(desc["change_points"]))
    raise ValueError(kind)


# --------------------------------------------------------------------------
# generation
# --------------------------------------------------------------------------


FORMAT_POOL = {
    "uuid": gen.UUIDS + ["nope", "123e4567-e89b-12d3-a456-42661417400", "", "123E4567E89B12D3A456426614174000"],
    "date-time": gen.DATETIMES + ["nope", "2020-13-01T00:00:00Z", "1990-12-31T23:59:60Z", "2020-01-01", ""],
    "sim-unregistered": ["a", "b", ""],
}


def _gen_format_case(rng, perm):
    """Small, focused workload: format checking is where validation calls out
    into code with process-global state of its own (registry, warnings
    filters, third-party parsers); several threads check valid, invalid and
    odd strings against one format."""
    fmt = rng.choice(["uuid", "date-time", "date-time", "sim-unregistered"])
    inner = {"k": "String", "kw": {"format": fmt}}
    shape = rng.random()
    if shape < 0.5:
        root, wrap = inner, (lambda v: v)
    elif shape < 0.75:
        root, wrap = {"k": "Array", "kw": {"items": inner}}, (lambda v: [v])
    else:
        root = {"k": "Element", "kw": {"properties": {"t": {"el": inner, "required": False, "source": None}}}}
        wrap = lambda v: {"t": v}
    world = {"shared": {}, "classes": [], "root": root}
    n_threads = rng.choice([2, 2, 3, 4])
    pool = FORMAT_POOL[fmt]
    few = rng.sample(pool, min(len(pool), rng.randint(2, 3)))
    threads = [
        [{"path": [], "arg": {"v": wrap(rng.choice(few))}} for _ in range(rng.choice([1, 2, 3]))]
        for _ in range(n_threads)
    ]
    case = {
        "prop": PROP,
        "world": world,
        "perm": perm,
        "threads": threads,
        "opcodes": rng.choice([False, False, "sites"]),
        "first": rng.randrange(n_threads),
        "policy": tprog_policy(rng, n_threads, 300),
        "policy_seed": rng.getrandbits(48),
        "format_focus": True,
    }
    sch = sched.Scheduler(
        n_threads,
        policy=make_policy(case["policy"], random.Random(case["policy_seed"])),
        opcodes=case["opcodes"],
    )
    _run(case, sch, build(world))
    case["segments"] = sch.segments
    return case


def tprog_policy(rng, n_threads, est):
    from sim import tprog

    return tprog.gen_policy(rng, n_threads, est)


def gen_case(rng):
    perm = gen_perm(rng)
    install_validator_order(perm)
    if rng.random() < 0.1:
        return _gen_format_case(rng, perm)
    hot = rng.random() < 0.5
    if hot:
        # "hot shared model": one class with many stateful property kinds that
        # every thread hammers, so that pre-emptions land inside in-flight
        # shared state rather than in unrelated sub-trees
        force = ("Class", "String", "Array", "formats", "tuple_items") + tuple(
            rng.sample(["inherit", "pattern_props", "defaults", "AnyOf", "untyped_props", "renames", "additional"], 2)
        )
        swarm = gen.Swarm(rng, force=force, forbid=("Nothing",))
        swarm.fmt_p = 0.5
        swarm.tuple_p = 0.6
        swarm.max_props = rng.choice([3, 4, 6])
        swarm.max_depth = rng.choice([2, 3])
        swarm.n_classes = rng.choice([2, 3])
        wgen = gen.WorldGen(rng, swarm)
        world = wgen.generate()
        # inject property kinds around which shared state tends to live
        target = max(world["classes"], key=lambda e: len(e["props"]))
        # injected sub-elements must not refer to classes (a later class or
        # the target itself would make the declaration cyclic)
        wgen = gen.WorldGen(rng, swarm)
        menu = [
            ("fmt", {"k": "String", "kw": {"format": rng.choice(["uuid", "date-time"])}}),
            ("tup", {"k": "Array", "kw": {"items": [wgen.element(2), wgen.element(2)], "additionalItems": rng.choice([True, False])}}),
            ("lst", {"k": "Array", "kw": {"items": {"k": "String", "kw": {"format": "uuid"}}}}),
            ("x_all", {"k": "AllOf", "els": [wgen.element(2), wgen.element(2)], "kw": {}}),
            ("any", {"k": "AnyOf", "els": [wgen.element(2), {"k": "String", "kw": {"format": "date-time"}}], "kw": {}}),
            # places where values are compared with schema literals
            ("enm", {"k": "Element", "kw": {"enum": rng.sample(["a", "ab", 1, True, 0, None, 2.5, "x"], rng.randint(2, 4))}}),
            ("unq", {"k": "Array", "kw": {"items": {"k": "Element", "kw": {}}, "uniqueItems": True}}),
        ]
        picks = rng.sample(menu, rng.randint(1, 3))
        if rng.random() < 0.6 and not any(a in ("fmt", "lst", "any") for a, _ in picks):
            picks.append(rng.choice([m for m in menu if m[0] in ("fmt", "lst", "any")]))
        for attr, spec in picks:
            target["props"][attr] = {
                "el": spec,
                # format-bearing properties are usually present in the data
                "required": rng.random() < (0.7 if attr in ("fmt", "lst", "any") else 0.3),
                "source": None,
            }
        if rng.random() < 0.5:
            # an untyped property: the place where arbitrarily nested data goes
            target["props"]["free"] = {"el": {"k": "Element", "kw": {}}, "required": False, "source": None}
        if rng.random() < 0.4:
            target["kw"].setdefault("patternProperties", {})["^x"] = wgen.element(2)
        root_kind = rng.random()
        if root_kind < 0.5:
            world["root"] = {"k": "Class", "id": target["id"]}
        elif root_kind < 0.7:
            world["root"] = {"k": "Array", "kw": {"items": {"k": "Class", "id": target["id"]}}}
    else:
        force = ("Class",) + (("inherit",) if rng.random() < 0.6 else ()) + tuple(
            rng.sample(
                ["shared", "pattern_props", "explicit_required", "tuple_items", "AnyOf", "OneOf", "AllOf", "untyped_props", "inherit", "dependencies", "additional"],
                3,
            )
        )
        world, swarm = gen.gen_world(rng, force=force)
    if world["classes"] and rng.random() < 0.5:
        # make sure some subclass exists: inheritance is where model classes
        # share the most state
        wg = gen.WorldGen(rng, swarm)
        wg.world = world
        wg.new_class(1, rng.choice(world["classes"])["id"])
    scratch = build(world)
    nodes = live_nodes(scratch)
    has_base = {e["id"] for e in world["classes"] if e.get("base")}
    weights = []
    for path, node in nodes:
        w = 1
        if not path:
            w = 8
        elif path[0][0] in ("class", "shared") and len(path) == 1:
            w = 5
            if path[0][0] == "class" and path[0][1] in has_base:
                w = 12
        weights.append(w)
    n_threads = rng.choice([2, 2, 3, 3, 4])
    same_target = rng.random() < (0.9 if hot else 0.6)
    shared_path = rng.choices(nodes, weights)[0]
    if hot:
        # the class with the most properties
        best = max(
            (n for n in nodes if len(n[0]) == 1 and n[0][0][0] == "class"),
            key=lambda n: len(n[1].properties or {}),
            default=None,
        )
        if best is not None and rng.random() < 0.8:
            shared_path = best
    p_again = rng.choice([0.0, 0.25, 0.4])
    p_deep = rng.choice([0.0, 0.0, 0.0, 0.15, 0.4])
    # "wide" runs: objects with hundreds of never-seen property names, so that
    # any bounded per-process memo (pattern matches, lookups) fills up and its
    # eviction path runs while several threads are inside it
    wide = hot and rng.random() < 0.06
    p_wide = 0.7 if wide else 0.0
    earlier = []
    shared_value = None
    if rng.random() < 0.25:
        shared_value = gen.gen_value(rng, shared_path[1])
    threads = []
    for _ in range(n_threads):
        calls = []
        for _ in range(rng.choice([1, 1, 2, 3])):
            path, node = shared_path if same_target and rng.random() < 0.8 else rng.choices(nodes, weights)[0]
            if earlier and rng.random() < p_again:
                # the same value validated again (by this or another thread)
                calls.append(copy.deepcopy(rng.choice(earlier)))
                continue
            if rng.random() < 0.05:
                arg = {"np": 1}
            elif rng.random() < p_wide and getattr(node, "properties", None) is not None:
                val = gen.instance(rng, node)
                if not isinstance(val, dict):
                    val = {}
                for _ in range(rng.randint(120, 220)):
                    val[rng.choice(["k", "x_", "id", "n"]) + str(rng.randrange(10 ** 6))] = rng.choice(gen.INTS + gen.STRS)
                arg = {"v": val}
            elif rng.random() < p_deep:
                # deeply nested data (an untyped position accepts any nesting)
                val = rng.choice([0, "a", None])
                for _ in range(rng.randint(30, 70)):
                    val = [val] if rng.random() < 0.6 else {"a": val}
                # place it where an untyped position is likely to receive it
                props = getattr(node, "properties", None)
                if props and "free" in props:
                    val = {"free": val}
                elif props is not None:
                    val = {"zz": val}
                arg = {"v": val}
            elif shared_value is not None and path == shared_path[0]:
                arg = {"v": copy.deepcopy(shared_value)}
                if rng.random() < 0.5:
                    # a different value that still has most sub-containers in common
                    arg = {"v": gen.mutate(rng, shared_value)}
            else:
                want_accept = rng.random() < 0.6
                val = gen.gen_value(rng, node)
                for _try in range(3):
                    verdict, _, _ = attempt(live_resolve(scratch, path), copy.deepcopy(val))
                    if (verdict == "accept") == want_accept:
                        break
                    val = gen.gen_value(rng, node)
                arg = {"v": val}
            calls.append({"path": path, "arg": arg})
            earlier.append({"path": path, "arg": arg})
        threads.append(calls)
    # schedule policy
    roll = rng.random()
    if roll < 0.25:
        policy = {"kind": "uniform", "p": rng.choice([0.002, 0.01, 0.05, 0.2])}
    elif roll < 0.45:
        policy = {
            "kind": "burst",
            "p": rng.choice([0.0, 0.002, 0.01]),
            "p_early": rng.choice([0.05, 0.15, 0.4]),
            "k": rng.choice([60, 200, 600, 1500]),
        }
    elif roll < 0.7:
        policy = {"kind": "sites", "p": rng.choice([0.0, 0.005, 0.02]), "p_site": rng.choice([0.3, 0.6, 0.9]), "window": rng.choice([1, 1, 2, 3])}
    else:
        # PCT: change points drawn from the step count of a reference run
        est = 400 * sum(len(t) for t in threads)
        depth = rng.choice([1, 2, 3])
        policy = {
            "kind": "pct",
            "prio": {str(t): p for t, p in zip(range(n_threads), rng.sample(range(10, 10 + n_threads), n_threads))},
            "change_points": sorted(rng.randint(1, est) for _ in range(depth)),
        }
    roll_gran = rng.random()
    if not _opcode_tier():
        opcodes = False
    elif roll_gran < 0.1:
        opcodes = True  # every bytecode of the package
    elif roll_gran < 0.35:
        opcodes = "sites"  # every bytecode inside functions that contain a write site
    else:
        opcodes = False
    case = {
        "prop": PROP,
        "world": world,
        "perm": perm,
        "threads": threads,
        "opcodes": opcodes,
        "first": rng.randrange(n_threads),
        "policy": policy,
        "policy_seed": rng.getrandbits(48),
        "swarm": swarm.describe(),
        "hot": hot,
        "share_values": bool(shared_value is not None or p_again) and rng.random() < 0.6,
        "share_parts": shared_value is not None and rng.random() < 0.6,
    }
    if wide:
        case["wide"] = True
        case["step_cap"] = 600000
        case["opcodes"] = opcodes = rng.choice([False, "sites", "sites"])
    # execute once under the policy to obtain the explicit schedule
    sch = sched.Scheduler(
        n_threads,
        policy=make_policy(policy, random.Random(case["policy_seed"])),
        opcodes=opcodes,
        step_cap=case.get("step_cap", sched.STEP_CAP),
    )
    built = build(world)
    _run(case, sch, built)
    case["segments"] = sch.segments
    return case


def _opcode_tier():
    import os

    return os.environ.get("VERIF_OPCODES", "1") == "1"


# --------------------------------------------------------------------------
# execution (pure replay of the explicit schedule)
# --------------------------------------------------------------------------


def reference_outcomes(world, threads, perm):
    install_validator_order(perm)
    out = []
    for calls in threads:
        row = []
        for call in calls:
            fresh = build(world)
            verdict, result, _ = attempt(live_resolve(fresh, call["path"]), _value(call["arg"]))
            row.append([verdict, norm(result) if verdict == "accept" else None])
        out.append(row)
    return out


def exec_case(case, log, stats):
    world = case["world"]
    install_validator_order(case.get("perm"))
    # sequential reference: every call alone on its own fresh build - computed
    # in *another* pristine process, so that in this one the threads are the
    # very first to validate anything (first use in a process is part of the
    # space: lazily imported or initialised helpers)
    reference = [
        [tuple(item) for item in row]
        for row in common.pristine(
            "sim.c14", "reference_outcomes", world, case["threads"], case.get("perm")
        )
    ]
    # The shared tree must be *cold* when the threads start (first-use paths
    # under concurrency are part of the space), so the "before" observation is
    # taken from two other builds of the same world, never from `built`.
    built = build(world)
    fresh0 = build(world)
    fresh1 = build(world)
    snap0 = snapshot(fresh1)
    if snapshot(fresh0) != snap0:
        stats.inc("degenerate_world")
        return None
    if snapshot(fresh1) != snap0:
        stats.inc("observer_not_idempotent")  # serialisers changed the tree: not C14's to judge
        return None
    eq0 = equal_both_ways(fresh1, fresh0)
    sch = sched.Scheduler(
        len(case["threads"]),
        segments=case["segments"],
        opcodes=case.get("opcodes") or False,
        keep_sites=True,
        step_cap=case.get("step_cap", sched.STEP_CAP),
    )
    outcomes, digest = _run(case, sch, built)
    log.add("schedule", digest, sch.step, sch.switches)
    if sch.deadlock:
        return {
            "invariant": "deadlock",
            "op_index": None,
            "detail": {"steps": sch.step, "preemptions": sch.switches, "lock_yields": sch.lock_yields},
        }
    if sch.lock_yields:
        stats.inc("lock_contention_yields", sch.lock_yields)
    stats.inc("runs")
    stats.inc("steps", sch.step)
    stats.inc("preemptions", sch.switches)
    stats.inc("threads", len(case["threads"]))
    stats.inc("policy:" + case.get("policy", {}).get("kind", "replay"))
    if case.get("opcodes") == "sites":
        stats.inc("hybrid_granularity_runs(opcodes in write-site functions)")
    elif case.get("opcodes"):
        stats.inc("opcode_granularity_runs")
    if case.get("hot"):
        stats.inc("hot_shared_model_runs")
    if case.get("format_focus"):
        stats.inc("format_focus_runs")
    if case.get("wide"):
        stats.inc("wide_runs(hundreds of fresh property names)")
    if case.get("share_values"):
        stats.inc("runs_sharing_input_objects_between_calls")
    if case.get("share_parts"):
        stats.inc("runs_sharing_sub_containers_between_different_inputs")
    if sch.capped:
        stats.inc("step_cap_hit")
    if sch.overlaps:
        stats.inc("runs_with_overlap_on_shared_object")
        stats.inc("overlap_switches", sch.overlaps)
        sites = stats.setdefault("overlap_sites", {})
        for key, val in sch.overlap_sites.items():
            sites[key] = sites.get(key, 0) + val
    wsites = _sites()
    at_write = 0
    for key, val in sch.switch_sites.items():
        rel, line = key.rsplit(":", 1)
        if (rel, int(line)) in wsites:
            at_write += val
    stats.inc("preemptions_at_write_sites", at_write)
    n_reject = 0
    unwinding = False
    for tid, calls in enumerate(case["threads"]):
        for idx, call in enumerate(calls):
            verdict, nres, exc, input_same = outcomes[tid][idx]
            log.add(tid, idx, call["path"], verdict, nres)
            stats.inc("calls")
            if verdict == "reject":
                n_reject += 1
                stats.inc("rejected")
                sites = stats.setdefault("abort_sites", {})
                site = abort_site(exc)
                sites[site] = sites.get(site, 0) + 1
            elif verdict == "accept":
                stats.inc("accepted")
            else:
                stats.inc(verdict)
            if not input_same:
                return {
                    "invariant": "input_changed",
                    "op_index": [tid, idx],
                    "detail": {"thread": tid, "call": idx},
                }
            if "escape:RecursionError" in (verdict, reference[tid][idx][0]):
                # the stack ran out on one side (a traced thread has less
                # headroom than an untraced main thread): no verdict
                stats.inc("recursion_exhausted(no verdict)")
                continue
            if (verdict, nres) != reference[tid][idx]:
                return {
                    "invariant": "differs_from_sequential",
                    "op_index": [tid, idx],
                    "detail": {
                        "thread": tid,
                        "call": idx,
                        "concurrent": [verdict, nres],
                        "alone": list(reference[tid][idx]),
                        "steps": sch.step,
                        "preemptions": sch.switches,
                    },
                }
    verdicts = {o[0] for t in outcomes for o in t}
    if "reject" in verdicts and "accept" in verdicts:
        stats.inc("runs_mixing_unwinding_and_building")
    snap = snapshot(built)
    if snap != snap0:
        return {
            "invariant": "tree_changed",
            "op_index": None,
            "detail": {"changed": diff_snap(snap0, snap), "kind": "text"},
        }
    eq_now = equal_both_ways(built, fresh0)
    if eq_now != eq0:
        return {
            "invariant": "tree_changed",
            "op_index": None,
            "detail": {"changed": eq_now, "kind": "equality"},
        }
    stats["_nontrivial"] = int(sch.overlaps >= 1 and n_reject >= 1)
    return None


# --------------------------------------------------------------------------
# minimisation
# --------------------------------------------------------------------------


def minimise(case, invariant, budget_s):
    import time

    from sim.driver import still_fails
    from sim.minimise import ddmin_list, reduce_json

    deadline = time.time() + budget_s
    case = copy.deepcopy(case)

    def fails(cand):
        return still_fails(PROP, cand, invariant)

    # 1. calls per thread (threads keep their index so segments stay meaningful)
    for tid in range(len(case["threads"])):
        calls = case["threads"][tid]

        def test_calls(kept, tid=tid):
            cand = copy.deepcopy(case)
            cand["threads"][tid] = kept
            return fails(cand)

        if len(calls) > 1 or (calls and test_calls([])):
            kept = ddmin_list(calls, test_calls, deadline)
            if test_calls(kept):
                case["threads"][tid] = kept
    # 2. fewest pre-emptions: drop / merge schedule segments
    def test_segments(segs):
        cand = dict(case)
        cand["segments"] = segs
        return fails(cand)

    segs = ddmin_list(case["segments"], test_segments, deadline)
    if test_segments(segs):
        case["segments"] = segs
    # 3. world and values
    case = reduce_json(case, fails, deadline, REDUCE_ROOTS)
    # 4. segments again
    segs = ddmin_list(case["segments"], test_segments, deadline)
    if test_segments(segs):
        case["segments"] = segs
    return case


def valid_case(case):
    return isinstance(case.get("threads"), list) and all(
        isinstance(t, list) for t in case["threads"]
    )


def fault_counts(stats):
    return {
        "preemptions": stats.get("preemptions", 0),
        "preemptions_at_write_sites": stats.get("preemptions_at_write_sites", 0),
        "overlap_switches(two threads inside frames on the same shared object)": stats.get("overlap_switches", 0),
        "rejected_calls(one thread unwinding)": stats.get("rejected", 0),
        "runs_mixing_unwinding_and_building": stats.get("runs_mixing_unwinding_and_building", 0),
        "opcode_granularity_runs": stats.get("opcode_granularity_runs", 0),
        "policies": {k.split(":", 1)[1]: v for k, v in stats.items() if k.startswith("policy:")},
        "validator_permutations": "one per run",
    }


def sample_of(case):
    return {
        "world": case["world"],
        "threads": case["threads"],
        "policy": case.get("policy"),
        "segments_head": case["segments"][:12],
        "n_segments": len(case["segments"]),
    }


def signature(case, violation):
    return {"invariant": violation["invariant"]}
